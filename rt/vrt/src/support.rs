// Types that generated code may be configured to refer to (replacement,
// conversion and map types).

use serde::{Deserialize, Serialize};
use std::collections::BTreeMap;

/// A user-supplied map type: K, V generic, `is_empty`, Default + Clone + Debug
/// + Serialize + Deserialize, as documented for `with_map_type`.
#[derive(Clone, Debug, PartialEq, Eq, PartialOrd, Ord, Hash, Serialize, Deserialize)]
#[serde(transparent)]
pub struct VMap<K: Ord, V>(pub BTreeMap<K, V>);

impl<K: Ord, V> Default for VMap<K, V> {
    fn default() -> Self {
        VMap(BTreeMap::new())
    }
}

impl<K: Ord, V> VMap<K, V> {
    pub fn is_empty(&self) -> bool {
        self.0.is_empty()
    }
}

impl<K: Ord, V> FromIterator<(K, V)> for VMap<K, V> {
    fn from_iter<I: IntoIterator<Item = (K, V)>>(iter: I) -> Self {
        VMap(iter.into_iter().collect())
    }
}

impl<K: Ord, V, const N: usize> From<[(K, V); N]> for VMap<K, V> {
    fn from(arr: [(K, V); N]) -> Self {
        VMap(arr.into_iter().collect())
    }
}

/// Replacement / conversion target that accepts any JSON value and has every
/// trait a settings entry may claim for it.
#[derive(Clone, Debug, PartialEq, Serialize, Deserialize, Default)]
#[serde(transparent)]
pub struct Repl(pub serde_json::Value);

impl std::fmt::Display for Repl {
    fn fmt(&self, f: &mut std::fmt::Formatter<'_>) -> std::fmt::Result {
        match &self.0 {
            serde_json::Value::String(s) => f.write_str(s),
            v => write!(f, "{}", v),
        }
    }
}

impl std::str::FromStr for Repl {
    type Err = std::convert::Infallible;
    fn from_str(s: &str) -> Result<Self, Self::Err> {
        Ok(Repl(serde_json::Value::String(s.to_string())))
    }
}

/// Same, but totally ordered and hashable (for use as set items / with Eq derives).
#[derive(
    Clone, Debug, PartialEq, Eq, PartialOrd, Ord, Hash, Serialize, Deserialize, Default,
)]
#[serde(transparent)]
pub struct ReplStr(pub String);

impl std::fmt::Display for ReplStr {
    fn fmt(&self, f: &mut std::fmt::Formatter<'_>) -> std::fmt::Result {
        f.write_str(&self.0)
    }
}

impl std::str::FromStr for ReplStr {
    type Err = std::convert::Infallible;
    fn from_str(s: &str) -> Result<Self, Self::Err> {
        Ok(ReplStr(s.to_string()))
    }
}

/// Generic external types for x-rust-type parameters.
#[derive(Clone, Debug, PartialEq, Serialize, Deserialize, Default)]
#[serde(transparent)]
pub struct Wrap1<A>(pub A);

#[derive(Clone, Debug, PartialEq, Serialize, Deserialize, Default)]
pub struct Wrap2<A, B>(pub A, pub B);

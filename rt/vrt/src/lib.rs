// Stage-2 monitor runtime: probes executed against compiled generated code.
// Every probe runs under catch_unwind; results are appended to an event log.

use std::cell::RefCell;
use std::io::{BufRead, BufReader, Write};
use std::panic::{catch_unwind, AssertUnwindSafe};

use serde::de::DeserializeOwned;
use serde::Serialize;
use serde_json::{json, Map, Value};

pub mod support;

pub type Dispatch = fn(&str, &str, &Value) -> Value;

thread_local! {
    static LAST_PANIC: RefCell<Option<String>> = const { RefCell::new(None) };
}

fn take_panic() -> String {
    LAST_PANIC
        .with(|p| p.borrow_mut().take())
        .unwrap_or_else(|| "<no message>".to_string())
}

/// Serialise a value; serialisation errors are data, not crashes.
pub fn ser<T: Serialize>(x: &T) -> Value {
    match serde_json::to_string(x) {
        Ok(s) => json!({ "ok": true, "text": s }),
        Err(e) => json!({ "ok": false, "err": e.to_string() }),
    }
}

/// Result of a fallible conversion, value serialised when Ok.
pub fn res<T: Serialize, E>(r: Result<T, E>) -> Value {
    match r {
        Ok(x) => json!({ "ok": true, "val": ser(&x) }),
        Err(_) => json!({ "ok": false }),
    }
}

/// Like `res` but keeps the error's Display text.
pub fn res_d<T: Serialize, E: std::fmt::Display>(r: Result<T, E>) -> Value {
    match r {
        Ok(x) => json!({ "ok": true, "val": ser(&x) }),
        Err(e) => json!({ "ok": false, "err": e.to_string() }),
    }
}

/// Deserialise JSON text, serialise back, and once more (idempotence).
pub fn op_de<T: DeserializeOwned + Serialize>(input: &Value) -> Value {
    let text = match input.as_str() {
        Some(t) => t,
        None => return json!({ "harness_error": "de input must be JSON text" }),
    };
    match serde_json::from_str::<T>(text) {
        Err(e) => json!({ "ok": false, "err": e.to_string() }),
        Ok(x) => {
            let mut o = Map::new();
            o.insert("ok".into(), json!(true));
            match serde_json::to_string(&x) {
                Err(e) => {
                    o.insert("ser_err".into(), json!(e.to_string()));
                }
                Ok(w) => {
                    match serde_json::from_str::<T>(&w) {
                        Err(e) => {
                            o.insert("w2_err".into(), json!(e.to_string()));
                        }
                        Ok(x2) => match serde_json::to_string(&x2) {
                            Err(e) => {
                                o.insert("w2_err".into(), json!(format!("ser: {}", e)));
                            }
                            Ok(w2) => {
                                // Compare as JSON values: hash-map iteration order is not
                                // part of the wire contract.
                                let same = w2 == w
                                    || matches!(
                                        (serde_json::from_str::<Value>(&w2), serde_json::from_str::<Value>(&w)),
                                        (Ok(a), Ok(b)) if a == b
                                    );
                                if !same {
                                    o.insert("w2".into(), json!(w2));
                                }
                                o.insert("w2_same".into(), json!(same));
                            }
                        },
                    }
                    o.insert("w".into(), json!(w));
                }
            }
            Value::Object(o)
        }
    }
}

pub fn op_default<T: Default + Serialize>() -> Value {
    ser(&T::default())
}

pub fn unknown_op() -> Value {
    json!({ "harness_error": "unknown (type, op)" })
}

pub fn run(table: &[(&str, Dispatch)]) {
    let args: Vec<String> = std::env::args().collect();
    if args.len() < 3 {
        eprintln!("usage: <bin> <probes.jsonl> <out.jsonl>");
        std::process::exit(2);
    }
    std::panic::set_hook(Box::new(|info| {
        let msg = if let Some(s) = info.payload().downcast_ref::<&str>() {
            s.to_string()
        } else if let Some(s) = info.payload().downcast_ref::<String>() {
            s.clone()
        } else {
            "<non-string panic>".to_string()
        };
        let loc = info
            .location()
            .map(|l| format!("{}:{}", l.file(), l.line()))
            .unwrap_or_default();
        LAST_PANIC.with(|p| *p.borrow_mut() = Some(format!("{} @ {}", msg, loc)));
    }));
    let input = BufReader::new(std::fs::File::open(&args[1]).expect("open probes"));
    let mut output = std::io::BufWriter::new(
        std::fs::OpenOptions::new()
            .create(true)
            .append(true)
            .open(&args[2])
            .expect("open out"),
    );
    let progress = format!("{}.progress", args[2]);
    let mut n = 0u64;
    for line in input.lines() {
        let line = line.expect("read");
        if line.trim().is_empty() {
            continue;
        }
        let p: Value = match serde_json::from_str(&line) {
            Ok(p) => p,
            Err(_) => continue,
        };
        let pid = p["pid"].clone();
        // Progress marker so a process abort can be attributed to a probe.
        std::fs::write(&progress, pid.to_string()).ok();
        let case = p["case"].as_str().unwrap_or("");
        let ty = p["ty"].as_str().unwrap_or("");
        let op = p["op"].as_str().unwrap_or("");
        let out = match table.iter().find(|(c, _)| *c == case) {
            None => json!({ "harness_error": "unknown case" }),
            Some((_, d)) => match catch_unwind(AssertUnwindSafe(|| d(ty, op, &p["input"]))) {
                Ok(v) => v,
                Err(_) => json!({ "panic": take_panic() }),
            },
        };
        writeln!(output, "{}", json!({ "pid": pid, "out": out })).unwrap();
        n += 1;
        if n % 256 == 0 {
            output.flush().unwrap();
        }
    }
    output.flush().unwrap();
    std::fs::write(&progress, "DONE").ok();
}

#!/bin/bash
# Offline setup: build the case runner and warm the shared stage-2 dependency cache.
set -e
cd "$(dirname "$0")"
export CARGO_NET_OFFLINE=true
mkdir -p work evidence
python3-vt - <<'PY'
import sys, os
sys.path.insert(0, os.path.join(os.getcwd(), "py"))
from vlib import vgen, stage2, util
vgen.build()
s2 = stage2.Stage2("SETUP", "warm", nshards=1)
s2.add_case("w", "pub struct W;", "pub fn dispatch(_t: &str, _o: &str, _i: &::serde_json::Value) -> ::serde_json::Value { ::vrt::unknown_op() }\n")
s2.build()
from props import c15
c15.warm()
print("setup ok")
PY

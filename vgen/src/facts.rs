// Structural facts about the generated code, extracted with syn so that the
// offline checkers (Python) do not have to parse Rust.

use quote::ToTokens;
use serde_json::{json, Map, Value};
use syn::{Attribute, Fields, Item, Meta, Visibility};

fn vis_str(v: &Visibility) -> String {
    v.to_token_stream().to_string()
}

fn tok<T: ToTokens>(t: &T) -> String {
    t.to_token_stream().to_string()
}

/// Digest of an item's complete token text (bodies included).
fn item_hash<T: ToTokens>(t: &T) -> String {
    use std::hash::{Hash, Hasher};
    #[allow(deprecated)]
    let mut h = std::hash::SipHasher::new();
    strip_trailing_commas(&tok(t)).hash(&mut h);
    format!("{:016x}", h.finish())
}

/// Formatting-insensitive token text: a comma directly before a closing
/// delimiter or `>` (which rustfmt adds or removes) is dropped; tokens are
/// joined by single spaces.
fn strip_trailing_commas(s: &str) -> String {
    match s.parse::<proc_macro2::TokenStream>() {
        Ok(ts) => {
            let mut out = String::new();
            norm_stream(ts, &mut out);
            out
        }
        Err(_) => s.to_string(),
    }
}

fn norm_stream(ts: proc_macro2::TokenStream, out: &mut String) {
    use proc_macro2::{Delimiter, TokenTree};
    let toks: Vec<TokenTree> = ts.into_iter().collect();
    for (i, t) in toks.iter().enumerate() {
        match t {
            TokenTree::Punct(p) if p.as_char() == ',' => {
                let next = toks.get(i + 1);
                let trailing = match next {
                    None => true,
                    Some(TokenTree::Punct(n)) => n.as_char() == '>',
                    _ => false,
                };
                if !trailing {
                    out.push_str(", ");
                }
            }
            TokenTree::Group(g) => {
                let (o, c) = match g.delimiter() {
                    Delimiter::Parenthesis => ("(", ")"),
                    Delimiter::Brace => ("{", "}"),
                    Delimiter::Bracket => ("[", "]"),
                    Delimiter::None => ("", ""),
                };
                out.push_str(o);
                out.push(' ');
                norm_stream(g.stream(), out);
                out.push_str(c);
                out.push(' ');
            }
            other => {
                out.push_str(&other.to_string());
                out.push(' ');
            }
        }
    }
}

/// All `#[derive(..)]` paths of an item.
fn derives(attrs: &[Attribute]) -> Vec<String> {
    let mut out = Vec::new();
    for a in attrs {
        if a.path().is_ident("derive") {
            if let Ok(list) = a.parse_args_with(
                syn::punctuated::Punctuated::<syn::Path, syn::Token![,]>::parse_terminated,
            ) {
                for p in list {
                    out.push(tok(&p).replace(' ', ""));
                }
            }
        }
    }
    out
}

/// `#[serde(..)]` options as a map: key -> string literal value or `true`.
fn serde_opts(attrs: &[Attribute]) -> Value {
    let mut out = Map::new();
    let mut dups = Vec::new();
    for a in attrs {
        if a.path().is_ident("serde") {
            if let Ok(list) = a.parse_args_with(
                syn::punctuated::Punctuated::<Meta, syn::Token![,]>::parse_terminated,
            ) {
                for m in list {
                    let (k, v) = match &m {
                        Meta::Path(p) => (tok(p), json!(true)),
                        Meta::NameValue(nv) => {
                            let v = match &nv.value {
                                syn::Expr::Lit(syn::ExprLit {
                                    lit: syn::Lit::Str(s),
                                    ..
                                }) => json!(s.value()),
                                other => json!({"expr": tok(other)}),
                            };
                            (tok(&nv.path), v)
                        }
                        Meta::List(l) => (tok(&l.path), json!({"list": tok(&l.tokens)})),
                    };
                    if out.contains_key(&k) {
                        dups.push(k.clone());
                    }
                    out.insert(k, v);
                }
            } else {
                out.insert("__unparsed".into(), json!(tok(a)));
            }
        }
    }
    if !dups.is_empty() {
        out.insert("__dups".into(), json!(dups));
    }
    Value::Object(out)
}

fn doc(attrs: &[Attribute]) -> Vec<String> {
    let mut out = Vec::new();
    for a in attrs {
        if a.path().is_ident("doc") {
            if let Meta::NameValue(nv) = &a.meta {
                if let syn::Expr::Lit(syn::ExprLit {
                    lit: syn::Lit::Str(s),
                    ..
                }) = &nv.value
                {
                    out.push(s.value());
                }
            }
        }
    }
    out
}

fn fields(fs: &Fields) -> (String, Vec<Value>) {
    match fs {
        Fields::Unit => ("unit".into(), vec![]),
        Fields::Named(n) => (
            "named".into(),
            n.named
                .iter()
                .map(|f| {
                    json!({
                        "ident": f.ident.as_ref().map(|i| i.to_string()),
                        "vis": vis_str(&f.vis),
                        "ty": tok(&f.ty),
                        "serde": serde_opts(&f.attrs),
                    })
                })
                .collect(),
        ),
        Fields::Unnamed(u) => (
            "tuple".into(),
            u.unnamed
                .iter()
                .map(|f| {
                    json!({
                        "ident": null,
                        "vis": vis_str(&f.vis),
                        "ty": tok(&f.ty),
                        "serde": serde_opts(&f.attrs),
                    })
                })
                .collect(),
        ),
    }
}

fn walk(items: &[Item], module: &str, out: &mut Vec<Value>) {
    for item in items {
        match item {
            Item::Struct(s) => {
                let (shape, fs) = fields(&s.fields);
                out.push(json!({
                    "kind": "struct", "mod": module, "name": s.ident.to_string(),
                    "vis": vis_str(&s.vis), "derives": derives(&s.attrs),
                    "serde": serde_opts(&s.attrs), "shape": shape, "fields": fs,
                    "generics": tok(&s.generics), "doc": doc(&s.attrs), "h": item_hash(s),
                }));
            }
            Item::Enum(e) => {
                let vs: Vec<Value> = e
                    .variants
                    .iter()
                    .map(|v| {
                        let (shape, fs) = fields(&v.fields);
                        json!({
                            "ident": v.ident.to_string(), "serde": serde_opts(&v.attrs),
                            "shape": shape, "fields": fs,
                        })
                    })
                    .collect();
                out.push(json!({
                    "kind": "enum", "mod": module, "name": e.ident.to_string(),
                    "vis": vis_str(&e.vis), "derives": derives(&e.attrs),
                    "serde": serde_opts(&e.attrs), "variants": vs,
                    "generics": tok(&e.generics), "doc": doc(&e.attrs), "h": item_hash(e),
                    "t": if std::env::var("VGEN_ITEM_TEXT").is_ok() { Some(strip_trailing_commas(&tok(e))) } else { None },
                }));
            }
            Item::Impl(i) => {
                let fns: Vec<Value> = i
                    .items
                    .iter()
                    .filter_map(|ii| match ii {
                        syn::ImplItem::Fn(f) => Some(json!({
                            "name": f.sig.ident.to_string(),
                            "vis": vis_str(&f.vis),
                            "sig": tok(&f.sig),
                        })),
                        _ => None,
                    })
                    .collect();
                out.push(json!({
                    "kind": "impl", "mod": module,
                    "trait": i.trait_.as_ref().map(|(_, p, _)| tok(p)),
                    "self_ty": tok(&i.self_ty),
                    "generics": tok(&i.generics),
                    "fns": fns, "h": item_hash(i),
                }));
            }
            Item::Fn(f) => {
                out.push(json!({
                    "kind": "fn", "mod": module, "name": f.sig.ident.to_string(),
                    "vis": vis_str(&f.vis), "sig": tok(&f.sig), "h": item_hash(f),
                }));
            }
            Item::Mod(m) => {
                let path = if module.is_empty() {
                    m.ident.to_string()
                } else {
                    format!("{}::{}", module, m.ident)
                };
                out.push(json!({
                    "kind": "mod", "mod": module, "name": m.ident.to_string(),
                    "vis": vis_str(&m.vis),
                }));
                if let Some((_, items)) = &m.content {
                    walk(items, &path, out);
                }
            }
            other => {
                out.push(json!({
                    "kind": "other", "mod": module,
                    "text": tok(other).chars().take(200).collect::<String>(),
                }));
            }
        }
    }
}

pub fn file_facts(file: &syn::File) -> Value {
    let mut out = Vec::new();
    walk(&file.items, "", &mut out);
    Value::Array(out)
}

/// Names of type definitions (struct/enum) per module, with multiplicity.
pub fn item_names(file: &syn::File) -> Value {
    let mut all = Vec::new();
    walk(&file.items, "", &mut all);
    let names: Vec<Value> = all
        .iter()
        .filter(|i| i["kind"] == "struct" || i["kind"] == "enum")
        .map(|i| json!([i["mod"], i["name"]]))
        .collect();
    Value::Array(names)
}

/// (module, kind, name-or-trait, self type) -> token hash of every item; used to compare snapshots of one type space.
pub fn item_keys(file: &syn::File) -> Value {
    let mut all = Vec::new();
    walk(&file.items, "", &mut all);
    let keys: Vec<Value> = all
        .iter()
        .filter(|i| i["kind"] == "struct" || i["kind"] == "enum" || i["kind"] == "impl" || i["kind"] == "fn")
        .map(|i| json!([i["mod"], i["kind"], i.get("name").cloned().unwrap_or(Value::Null),
                        i.get("trait").cloned().unwrap_or(Value::Null),
                        i.get("self_ty").cloned().unwrap_or(Value::Null), i.get("h").cloned().unwrap_or(Value::Null)]))
        .collect();
    Value::Array(keys)
}

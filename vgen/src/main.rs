// vgen: runs cases against the real typify-impl TypeSpace and dumps everything
// an offline checker needs (API results, introspection facts, rendered code,
// syn facts about the rendered code, hook events).
//
// usage: vgen <cases.jsonl> <out.jsonl>
// Progress (the id of the case being executed) is written to <out>.progress so
// that a process abort can be attributed by the orchestrator.

use std::cell::RefCell;
use std::io::{BufRead, BufReader, Write};
use std::panic::{catch_unwind, AssertUnwindSafe};

use quote::ToTokens;
use schemars::schema::{RootSchema, Schema, SchemaObject};
use serde_json::{json, Map, Value};
use typify_impl::{
    CrateVers, TypeDetails, TypeEnumVariant, TypeId, TypeSpace, TypeSpaceImpl, TypeSpacePatch,
    TypeSpaceSettings, UnknownPolicy,
};

mod facts;

thread_local! {
    static LAST_PANIC: RefCell<Option<String>> = const { RefCell::new(None) };
}

fn take_panic() -> String {
    LAST_PANIC
        .with(|p| p.borrow_mut().take())
        .unwrap_or_else(|| "<no panic message>".to_string())
}

fn id_num(id: &TypeId) -> u64 {
    // TypeId is opaque; its Debug form is `TypeId(<n>)`.
    let s = format!("{:?}", id);
    s.trim_start_matches("TypeId(")
        .trim_end_matches(')')
        .parse()
        .unwrap_or(0)
}

fn parse_impls(v: Option<&Value>) -> Vec<TypeSpaceImpl> {
    v.and_then(|v| v.as_array())
        .map(|a| {
            a.iter()
                .filter_map(|s| s.as_str())
                .filter_map(|s| s.parse::<TypeSpaceImpl>().ok())
                .collect()
        })
        .unwrap_or_default()
}

fn build_settings(s: &Value) -> Result<TypeSpaceSettings, String> {
    let mut st = TypeSpaceSettings::default();
    if let Some(b) = s.get("struct_builder").and_then(|v| v.as_bool()) {
        st.with_struct_builder(b);
    }
    if let Some(m) = s.get("map_type").and_then(|v| v.as_str()) {
        st.with_map_type(m);
    }
    if let Some(m) = s.get("type_mod").and_then(|v| v.as_str()) {
        st.with_type_mod(m);
    }
    if let Some(ds) = s.get("derives").and_then(|v| v.as_array()) {
        for d in ds {
            st.with_derive(d.as_str().unwrap_or("").to_string());
        }
    }
    if let Some(ps) = s.get("patches").and_then(|v| v.as_array()) {
        for p in ps {
            let mut patch = TypeSpacePatch::default();
            if let Some(r) = p.get("rename").and_then(|v| v.as_str()) {
                patch.with_rename(r);
            }
            if let Some(ds) = p.get("derives").and_then(|v| v.as_array()) {
                for d in ds {
                    patch.with_derive(d.as_str().unwrap_or(""));
                }
            }
            st.with_patch(p["name"].as_str().ok_or("patch name")?, &patch);
        }
    }
    if let Some(rs) = s.get("replacements").and_then(|v| v.as_array()) {
        for r in rs {
            st.with_replacement(
                r["name"].as_str().ok_or("replacement name")?,
                r["type"].as_str().ok_or("replacement type")?,
                parse_impls(r.get("impls")).into_iter(),
            );
        }
    }
    if let Some(cs) = s.get("conversions").and_then(|v| v.as_array()) {
        for c in cs {
            let schema: SchemaObject =
                serde_json::from_value(c["schema"].clone()).map_err(|e| e.to_string())?;
            st.with_conversion(
                schema,
                c["type"].as_str().ok_or("conversion type")?,
                parse_impls(c.get("impls")).into_iter(),
            );
        }
    }
    if let Some(cs) = s.get("crates").and_then(|v| v.as_array()) {
        for c in cs {
            let vers = CrateVers::parse(c["version"].as_str().ok_or("crate version")?)
                .ok_or("bad crate version")?;
            let rename = c.get("rename").and_then(|v| v.as_str()).map(String::from);
            st.with_crate(
                c["name"].as_str().ok_or("crate name")?,
                vers,
                rename.as_ref(),
            );
        }
    }
    if let Some(p) = s.get("unknown_crates").and_then(|v| v.as_str()) {
        st.with_unknown_crates(match p {
            "Allow" => UnknownPolicy::Allow,
            "Deny" => UnknownPolicy::Deny,
            _ => UnknownPolicy::Generate,
        });
    }
    Ok(st)
}

fn ts(t: proc_macro2::TokenStream) -> String {
    t.to_string()
}

fn dump_type(space: &TypeSpace, ty: &typify_impl::Type, idn: u64, has_impl: bool) -> Value {
    let mut o = Map::new();
    o.insert("id".into(), json!(idn));
    o.insert("name".into(), json!(ty.name()));
    o.insert("ident".into(), json!(ts(ty.ident())));
    o.insert("pident".into(), json!(ts(ty.parameter_ident())));
    o.insert(
        "pident_lt".into(),
        json!(ts(ty.parameter_ident_with_lifetime("a"))),
    );
    o.insert("describe".into(), json!(ty.describe()));
    o.insert("builder".into(), json!(ty.builder().map(ts)));
    match ty.details() {
        TypeDetails::Enum(e) => {
            o.insert("kind".into(), json!("enum"));
            let vs: Vec<Value> = e
                .variants_info()
                .map(|v| {
                    let (k, types, props) = match &v.details {
                        TypeEnumVariant::Simple => ("simple", vec![], vec![]),
                        TypeEnumVariant::Tuple(t) => {
                            ("tuple", t.iter().map(id_num).collect::<Vec<_>>(), vec![])
                        }
                        TypeEnumVariant::Struct(p) => (
                            "struct",
                            vec![],
                            p.iter()
                                .map(|(n, id)| json!([n, id_num(id)]))
                                .collect::<Vec<_>>(),
                        ),
                    };
                    json!({"name": v.name, "desc": v.description, "kind": k, "types": types, "props": props})
                })
                .collect();
            o.insert("variants".into(), json!(vs));
        }
        TypeDetails::Struct(s) => {
            o.insert("kind".into(), json!("struct"));
            let ps: Vec<Value> = s
                .properties_info()
                .map(|p| json!({"name": p.name, "desc": p.description, "required": p.required, "type_id": id_num(&p.type_id)}))
                .collect();
            o.insert("props".into(), json!(ps));
            let ps2: Vec<Value> = s
                .properties()
                .map(|(n, id)| json!([n, id_num(&id)]))
                .collect();
            o.insert("props2".into(), json!(ps2));
        }
        TypeDetails::Newtype(n) => {
            o.insert("kind".into(), json!("newtype"));
            o.insert("inner".into(), json!(id_num(&n.inner())));
        }
        TypeDetails::Option(id) => {
            o.insert("kind".into(), json!("option"));
            o.insert("of".into(), json!(id_num(&id)));
        }
        TypeDetails::Vec(id) => {
            o.insert("kind".into(), json!("vec"));
            o.insert("of".into(), json!(id_num(&id)));
        }
        TypeDetails::Set(id) => {
            o.insert("kind".into(), json!("set"));
            o.insert("of".into(), json!(id_num(&id)));
        }
        TypeDetails::Box(id) => {
            o.insert("kind".into(), json!("box"));
            o.insert("of".into(), json!(id_num(&id)));
        }
        TypeDetails::Map(k, v) => {
            o.insert("kind".into(), json!("map"));
            o.insert("key".into(), json!(id_num(&k)));
            o.insert("of".into(), json!(id_num(&v)));
        }
        TypeDetails::Tuple(it) => {
            o.insert("kind".into(), json!("tuple"));
            o.insert(
                "items".into(),
                json!(it.map(|i| id_num(&i)).collect::<Vec<_>>()),
            );
        }
        TypeDetails::Array(id, n) => {
            o.insert("kind".into(), json!("array"));
            o.insert("of".into(), json!(id_num(&id)));
            o.insert("len".into(), json!(n));
        }
        TypeDetails::Builtin(n) => {
            o.insert("kind".into(), json!("builtin"));
            o.insert("builtin".into(), json!(n));
        }
        TypeDetails::Unit => {
            o.insert("kind".into(), json!("unit"));
        }
        TypeDetails::String => {
            o.insert("kind".into(), json!("string"));
        }
    }
    if has_impl {
        let _ = space;
        o.insert(
            "has_impl".into(),
            json!({
                "FromStr": ty.has_impl(TypeSpaceImpl::FromStr),
                "Display": ty.has_impl(TypeSpaceImpl::Display),
                "Default": ty.has_impl(TypeSpaceImpl::Default),
            }),
        );
    }
    Value::Object(o)
}

fn dump_types(space: &TypeSpace, has_impl: bool) -> Vec<Value> {
    space
        .iter_types()
        .enumerate()
        .map(|(i, ty)| dump_type(space, &ty, (i + 1) as u64, has_impl))
        .collect()
}

fn hash_str(s: &str) -> String {
    use std::hash::{Hash, Hasher};
    #[allow(deprecated)]
    let mut h = std::hash::SipHasher::new();
    s.hash(&mut h);
    format!("{:016x}", h.finish())
}

struct Rendered {
    status: &'static str,
    msg: Option<String>,
    tokens: Option<String>,
}

fn render(space: &TypeSpace) -> Rendered {
    match catch_unwind(AssertUnwindSafe(|| space.to_stream().to_string())) {
        Ok(s) => Rendered {
            status: "ok",
            msg: None,
            tokens: Some(s),
        },
        Err(_) => Rendered {
            status: "panic",
            msg: Some(take_panic()),
            tokens: None,
        },
    }
}

thread_local! {
    static PROGRESS: RefCell<Option<(String, String)>> = const { RefCell::new(None) };
}

fn phase(p: &str) {
    PROGRESS.with(|pr| {
        if let Some((path, id)) = &*pr.borrow() {
            std::fs::write(path, format!("{}\t{}", id, p)).ok();
        }
    });
}

fn run_case(case: &Value) -> Value {
    let mut out = Map::new();
    out.insert("id".into(), case["id"].clone());
    let opts = case.get("opts").cloned().unwrap_or(json!({}));
    let opt = |k: &str, d: bool| opts.get(k).and_then(|v| v.as_bool()).unwrap_or(d);
    let want_has_impl = opt("has_impl", true);
    let want_snap = opt("snap", false);
    let want_facts = opt("facts", true);
    let want_code = opt("code", true);
    let want_tokens = opt("tokens", false);
    let want_types = opt("types", true);
    let want_hooks = opt("hooks", true);
    let want_resolve = opt("resolve_defs", true);

    #[cfg(typify_verif)]
    let _ = typify_impl::verif::drain();

    let settings = match catch_unwind(AssertUnwindSafe(|| {
        build_settings(case.get("settings").unwrap_or(&json!({})))
    })) {
        Ok(Ok(s)) => s,
        Ok(Err(e)) => {
            out.insert("harness_error".into(), json!(format!("settings: {}", e)));
            return Value::Object(out);
        }
        Err(_) => {
            out.insert(
                "harness_error".into(),
                json!(format!("settings panic: {}", take_panic())),
            );
            return Value::Object(out);
        }
    };
    let mut space = TypeSpace::new(&settings);
    phase("ingest");

    let mut steps = Vec::new();
    let mut snaps = Vec::new();
    let mut all_ok = true;
    let mut def_names: Vec<String> = Vec::new();
    let empty = vec![];
    for step in case["history"].as_array().unwrap_or(&empty) {
        let op = step["op"].as_str().unwrap_or("");
        let mut sres = Map::new();
        sres.insert("op".into(), json!(op));
        let r = catch_unwind(AssertUnwindSafe(|| -> Result<Value, String> {
            match op {
                "root" => {
                    let root: RootSchema = serde_json::from_value(step["schema"].clone())
                        .map_err(|e| format!("PARSE:{}", e))?;
                    let names: Vec<String> = root.definitions.keys().cloned().collect();
                    let r = space
                        .add_root_schema(root)
                        .map_err(|e| format!("ERR:{}", e))?;
                    Ok(json!({"id": r.as_ref().map(id_num), "defs": names}))
                }
                "refs" => {
                    let mut defs: Vec<(String, Schema)> = Vec::new();
                    for pair in step["defs"].as_array().ok_or("PARSE:defs")? {
                        let name = pair[0].as_str().ok_or("PARSE:def name")?.to_string();
                        let schema: Schema = serde_json::from_value(pair[1].clone())
                            .map_err(|e| format!("PARSE:{}", e))?;
                        defs.push((name, schema));
                    }
                    let names: Vec<String> = defs.iter().map(|d| d.0.clone()).collect();
                    space
                        .add_ref_types(defs)
                        .map_err(|e| format!("ERR:{}", e))?;
                    Ok(json!({"defs": names}))
                }
                "type" => {
                    let schema: Schema = serde_json::from_value(step["schema"].clone())
                        .map_err(|e| format!("PARSE:{}", e))?;
                    let name = step.get("name").and_then(|v| v.as_str()).map(String::from);
                    let id = space
                        .add_type_with_name(&schema, name)
                        .map_err(|e| format!("ERR:{}", e))?;
                    Ok(json!({"id": id_num(&id)}))
                }
                _ => Err(format!("PARSE:unknown op {}", op)),
            }
        }));
        match r {
            Ok(Ok(v)) => {
                sres.insert("result".into(), json!("ok"));
                if let Some(ns) = v.get("defs").and_then(|d| d.as_array()) {
                    for n in ns {
                        def_names.push(n.as_str().unwrap().to_string());
                    }
                }
                sres.insert("ret".into(), v);
            }
            Ok(Err(e)) => {
                all_ok = false;
                if let Some(m) = e.strip_prefix("PARSE:") {
                    sres.insert("result".into(), json!("parse_error"));
                    sres.insert("msg".into(), json!(m));
                } else {
                    sres.insert("result".into(), json!("err"));
                    sres.insert("msg".into(), json!(e.trim_start_matches("ERR:")));
                }
            }
            Err(_) => {
                all_ok = false;
                sres.insert("result".into(), json!("panic"));
                sres.insert("msg".into(), json!(take_panic()));
            }
        }
        steps.push(Value::Object(sres));
        if !all_ok {
            break;
        }
        if want_snap {
            let types = catch_unwind(AssertUnwindSafe(|| dump_types(&space, true)));
            let r = render(&space);
            let parsed = r
                .tokens
                .as_ref()
                .and_then(|t| syn::parse_str::<syn::File>(t).ok());
            let names = parsed.as_ref().map(facts::item_names);
            let keys = parsed.as_ref().map(facts::item_keys);
            snaps.push(json!({
                "types": types.ok(),
                "render": r.status,
                "render_msg": r.msg,
                "items": names,
                "item_keys": keys,
                "tokens_hash": r.tokens.as_ref().map(|t| hash_str(t)),
            }));
        }
    }
    out.insert("steps".into(), json!(steps));
    out.insert("ingest_ok".into(), json!(all_ok));
    if want_snap {
        out.insert("snaps".into(), json!(snaps));
    }

    if all_ok {
        // Locate definitions the way a client does: add_type(&{$ref}).
        if want_resolve {
            let mut defs = Map::new();
            for n in &def_names {
                let schema: Schema = Schema::Object(SchemaObject {
                    reference: Some(format!("#/definitions/{}", n)),
                    ..Default::default()
                });
                let r = catch_unwind(AssertUnwindSafe(|| space.add_type(&schema)));
                match r {
                    Ok(Ok(id)) => {
                        let t = space.get_type(&id).ok();
                        defs.insert(
                            n.clone(),
                            json!({"id": id_num(&id), "ident": t.as_ref().map(|t| ts(t.ident())), "name": t.as_ref().map(|t| t.name())}),
                        );
                    }
                    Ok(Err(e)) => {
                        defs.insert(n.clone(), json!({"err": e.to_string()}));
                    }
                    Err(_) => {
                        defs.insert(n.clone(), json!({"panic": take_panic()}));
                    }
                }
            }
            out.insert("defs".into(), Value::Object(defs));
        }

        phase("render");
        let r1 = render(&space);
        phase("post");
        out.insert("render".into(), json!(r1.status));
        if let Some(m) = &r1.msg {
            out.insert("render_msg".into(), json!(m));
        }
        if let Some(tokens) = &r1.tokens {
            let r2 = render(&space);
            out.insert(
                "render_stable".into(),
                json!(r2.tokens.as_deref() == Some(tokens.as_str())),
            );
            out.insert("tokens_hash".into(), json!(hash_str(tokens)));
            out.insert("tokens_len".into(), json!(tokens.len()));
            match syn::parse_str::<syn::File>(tokens) {
                Ok(file) => {
                    out.insert("syn".into(), json!("ok"));
                    if want_facts {
                        out.insert("facts".into(), facts::file_facts(&file));
                    }
                    if want_code {
                        match catch_unwind(AssertUnwindSafe(|| prettyplease::unparse(&file))) {
                            Ok(code) => {
                                out.insert("code".into(), json!(code));
                            }
                            Err(_) => {
                                let _ = take_panic();
                                out.insert("code".into(), json!(tokens));
                            }
                        }
                    }
                    if want_tokens {
                        out.insert("tokens".into(), json!(tokens));
                    }
                }
                Err(e) => {
                    out.insert("syn".into(), json!("err"));
                    out.insert("syn_msg".into(), json!(e.to_string()));
                    out.insert("tokens".into(), json!(tokens));
                }
            }
        }
        if want_types {
            match catch_unwind(AssertUnwindSafe(|| dump_types(&space, want_has_impl))) {
                Ok(t) => {
                    out.insert("types".into(), json!(t));
                }
                Err(_) => {
                    out.insert("types_panic".into(), json!(take_panic()));
                }
            }
        }
        out.insert(
            "uses".into(),
            json!({
                "chrono": space.uses_chrono(),
                "uuid": space.uses_uuid(),
                "serde_json": space.uses_serde_json(),
                "regress": space.uses_regress(),
            }),
        );
    }

    #[cfg(typify_verif)]
    if want_hooks {
        let ev: Vec<Value> = typify_impl::verif::drain()
            .into_iter()
            .filter_map(|l| serde_json::from_str(&l).ok())
            .collect();
        out.insert("hooks".into(), json!(ev));
    }
    #[cfg(not(typify_verif))]
    let _ = want_hooks;

    Value::Object(out)
}

/// `vgen --facts <in.rs> <out.json>`: syn facts (with per-item token digests) of a Rust source file.
fn facts_mode(args: &[String]) {
    let text = std::fs::read_to_string(&args[2]).expect("read source");
    let out = match syn::parse_file(&text) {
        Ok(file) => json!({"syn": "ok", "facts": facts::file_facts(&file),
                           "inner_attrs": file.attrs.iter().map(|a| a.to_token_stream().to_string()).collect::<Vec<_>>()}),
        Err(e) => json!({"syn": "err", "syn_msg": e.to_string()}),
    };
    std::fs::write(&args[3], out.to_string()).expect("write facts");
}

fn real_main() {
    let args: Vec<String> = std::env::args().collect();
    if args.len() >= 4 && args[1] == "--facts" {
        facts_mode(&args);
        return;
    }
    if args.len() < 3 {
        eprintln!("usage: vgen <cases.jsonl> <out.jsonl>");
        std::process::exit(2);
    }
    std::panic::set_hook(Box::new(|info| {
        let msg = if let Some(s) = info.payload().downcast_ref::<&str>() {
            s.to_string()
        } else if let Some(s) = info.payload().downcast_ref::<String>() {
            s.clone()
        } else {
            "<non-string panic>".to_string()
        };
        let loc = info
            .location()
            .map(|l| format!("{}:{}", l.file(), l.line()))
            .unwrap_or_default();
        LAST_PANIC.with(|p| *p.borrow_mut() = Some(format!("{} @ {}", msg, loc)));
    }));
    let input = BufReader::new(std::fs::File::open(&args[1]).expect("open cases"));
    let mut output = std::io::BufWriter::new(
        std::fs::OpenOptions::new()
            .create(true)
            .append(true)
            .open(&args[2])
            .expect("open out"),
    );
    let progress_path = format!("{}.progress", args[2]);
    for line in input.lines() {
        let line = line.expect("read");
        if line.trim().is_empty() {
            continue;
        }
        let case: Value = match serde_json::from_str(&line) {
            Ok(c) => c,
            Err(e) => {
                writeln!(output, "{}", json!({"harness_error": format!("case parse: {}", e)}))
                    .unwrap();
                continue;
            }
        };
        std::fs::write(&progress_path, case["id"].as_str().unwrap_or("?")).ok();
        PROGRESS.with(|pr| {
            *pr.borrow_mut() = Some((
                progress_path.clone(),
                case["id"].as_str().unwrap_or("?").to_string(),
            ))
        });
        let res = run_case(&case);
        writeln!(output, "{}", res).unwrap();
        output.flush().unwrap();
    }
    std::fs::write(&progress_path, "DONE").ok();
}

fn main() {
    // Deep (but finite) recursion in typify on nested schemas must not be
    // mistaken for a crash: run on a thread with a large stack.
    let t = std::thread::Builder::new()
        .stack_size(512 << 20)
        .spawn(real_main)
        .unwrap();
    if t.join().is_err() {
        std::process::exit(3);
    }
}

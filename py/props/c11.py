"""C11 — string conversions of generated types agree with their wire format."""
import json

from vlib import pipeline, schemagen, util, vgen
from vlib.driver import norm
from . import common, strconv

PROP = "C11"

VALUE_POOL = schemagen.ENUM_VALUES + ["A", "a_b", "a-b", "AB", "aB", "Ab", " lead", "trail ", "with\ttab", "quote\"d",
                                      "back\\slash", "{brace}", "%", "{}", "{0}", "ünï", "ÄB", "ß", "ſ", "İ", "null", "true",
                                      "0", "-", "", " ", "X", "x", "_", "é"]


# formats typify does not map to a native type (they stay strings): spellings close to the recognised ones included
UNKNOWN_FORMATS = ["partial-date-time", "time", "duration", "email", "uri", "Date", "DATE-TIME", "uuid4", "ip-address", "regex"]


def gen_doc(r):
    defs = {}
    n = r.randrange(2, 6)
    names = r.sample(schemagen.DEF_NAMES, n)
    stringish = []
    for nm in names:
        k = r.random()
        if k < 0.35:
            vals = r.sample(VALUE_POOL, r.randrange(1, 7))
            s = {"type": "string", "enum": vals}
            if r.random() < 0.2:
                s["maxLength"] = r.randrange(1, 6)   # generation-time filtering of values
        elif k < 0.55:
            s = {"type": "string"}
            c = r.randrange(3)
            if c == 0:
                s["minLength"] = r.randrange(0, 4)
                s["maxLength"] = s["minLength"] + r.randrange(0, 5)
            elif c == 1:
                s["pattern"] = r.choice(schemagen.PATTERNS)[0]
            else:
                s["maxLength"] = r.randrange(0, 6)
                s["pattern"] = r.choice(schemagen.PATTERNS)[0]
        elif k < 0.65:
            s = {"type": "string"}
        elif k < 0.8:
            s = {"type": "string", "format": r.choice(schemagen.STR_FORMATS + UNKNOWN_FORMATS)}
        elif k < 0.9 and stringish:
            s = {"$ref": "#/definitions/" + r.choice(stringish)}
        else:
            branches = []
            for _ in range(r.randrange(2, 4)):
                b = r.random()
                if b < 0.4:
                    branches.append({"type": "string", "enum": r.sample(VALUE_POOL, r.randrange(1, 4))})
                elif b < 0.7:
                    branches.append({"type": "string", "format": r.choice(schemagen.STR_FORMATS + UNKNOWN_FORMATS)})
                elif stringish and b < 0.85:
                    branches.append({"$ref": "#/definitions/" + r.choice(stringish)})
                else:
                    branches.append({"type": "string", "pattern": r.choice(schemagen.PATTERNS)[0]})
            if r.random() < 0.35:
                # two alternatives with one and the same payload type (they differ in annotations only)
                dup = dict(r.choice(branches))
                dup["title" if "$ref" not in dup else "description"] = "again"
                branches.insert(r.randrange(len(branches) + 1), dup)
            s = {"oneOf": branches}
        defs[nm] = s
        stringish.append(nm)
    # a holder struct so that inline (non-definition) string types are generated too
    defs["Holder"] = {"type": "object", "properties": {
        "e": {"type": "string", "enum": r.sample(VALUE_POOL, r.randrange(1, 5))},
        "c": {"type": "string", "minLength": 1, "maxLength": r.randrange(1, 5)},
        "u": {"anyOf": [{"type": "string", "format": "uuid"}, {"type": "string", "format": "ipv4"}]}}}
    return {"definitions": defs}


import re as _re
UTC_DISPLAY = _re.compile(r"^-?\d{4,}-\d\d-\d\d \d\d:\d\d:\d\d(\.\d+)? UTC$")
RFC3339_UTC = _re.compile(r"^-?\d{4,}-\d\d-\d\dT\d\d:\d\d:\d\d(\.\d+)?Z$")


def over_datetime(res, tname):
    """Does Display of this type bottom out in chrono::DateTime (newtype chain / untagged variant)?"""
    types = {t["id"]: t for t in res.get("types") or []}
    t = next((t for t in types.values() if norm(t["name"]) == tname and t["kind"] in ("newtype", "enum")), None)
    seen = set()

    def go(t):
        if t is None or t["id"] in seen:
            return False
        seen.add(t["id"])
        if t["kind"] == "builtin":
            return "chrono::DateTime" in norm(t.get("builtin") or "")
        if t["kind"] == "newtype":
            return go(types.get(t["inner"]))
        if t["kind"] == "enum":
            return any(go(types.get(x)) for v in t.get("variants") or [] for x in v.get("types") or [])
        return False

    return go(t)


def run(tier, seed, replay=None):
    rep = util.Report(PROP, tier, seed)
    rep.rule = ("documents of string-like definitions (simple enums with renamed/odd-cased values, constrained and plain string "
                "newtypes, newtypes over formatted natives, aliases, untagged enums of string-typed alternatives); every "
                "string-convertible generated type whose wire form is a JSON string is probed with members, near-misses, "
                "identifier forms, boundary lengths and multi-byte text. Non-trivial: probe on a type whose identifier differs "
                "from a raw value or that has constraints; distinct by (type shape, probe string).")
    rep.assumptions = [
        "a type's wire form is 'always a JSON string' iff: String / string-formatted native / newtype over such / enum of "
        "unit variants without tag attribute / untagged enum whose variants all wrap such types (decided from the "
        "introspection API and serde attributes)",
        "value equality is judged on the serialised form",
    ]
    n = 80 if tier == "quick" else 2500
    docs = []
    if replay:
        docs = common.gen_docs(PROP, seed, 0, replay=replay)
    else:
        for i in range(n):
            r = util.rng(seed, PROP, "doc", i)
            docs.append(("d%04d" % i, gen_doc(r), ["stringish"]))
        fmts = schemagen.STR_FORMATS + UNKNOWN_FORMATS
        for j in range(0, len(fmts), 4):
            chunk = fmts[j:j + 4]
            defs_ = {"F%d" % (j + k_): {"type": "string", "format": f_} for k_, f_ in enumerate(chunk)}
            defs_["AnyOfThem"] = {"oneOf": [{"type": "string", "format": f_} for f_ in chunk[:2]] +
                                  [{"type": "string", "enum": ["fallback"]}]}
            docs.append(("fmt%02d" % j, {"definitions": defs_}, ["stringish", "formats"]))
        docs += [d for d in common.gen_docs(PROP, seed, 0) if d[0].startswith("k_")]
    cases = [{"id": did, "settings": {}, "history": [{"op": "root", "schema": doc}]} for did, doc, u in docs]
    run_ = pipeline.Run(PROP, "main")
    results = run_.vgen(cases)
    common.count_ingest(rep, results)
    ok = {cid for cid, res in results.items() if res.get("ingest_ok") and res.get("syn") == "ok"}
    if not ok:
        rep.inconclusive.append("nothing ingested")
        return rep.finish(util.Findings(PROP, {}))
    run_.compile(ids=ok, want_builder=False)
    probes = []
    for cid in sorted(ok):
        if cid in run_.s2.removed:
            rep.count("compile_failed")
            continue
        for p in strconv.str_probes(cid, results[cid], run_.info.get(cid, {}), util.rng(seed, PROP, "p", cid)):
            p["pid"] = len(probes)
            probes.append(p)
    outs, ab, to, sk = run_.probe([{k: v for k, v in p.items() if k != "meta"} for p in probes])
    docmap = {did: doc for did, doc, u in docs}
    kinds = {}
    for p in probes:
        out = outs.get(p["pid"])
        if out is None:
            continue
        m = p["meta"]
        rep.evaluations += 1
        case = {"id": p["case"], "settings": {}}
        if out.get("panic"):
            rep.violation("conversion_panics", common.site_of(out["panic"]), {"type": m["type"], "s": m["s"]},
                          case=case, doc=docmap[p["case"]])
            continue
        issues = strconv.check_agreement(out, want_display=True)
        for kind, det in issues:
            cause = None
            if kind == "display_differs_from_wire" and over_datetime(results[p["case"]], m["type"]) and \
                    UTC_DISPLAY.match(det.get("display") or "") and RFC3339_UTC.match(det.get("serialized") or ""):
                # KF-C11-1 exactly: chrono::DateTime<Utc> prints "<date> <time> UTC" where the wire has "<date>T<time>Z"
                cause = "chrono_datetime_display"
            rep.violation(kind, ",".join(sorted(det.get("ok", det.get("values", {"display": 1})))),
                          dict(det, type=m["type"], s=m["s"]), case=case, doc=docmap[p["case"]], cause=cause)
        if issues:
            continue
        rep.count("agree")
        if (out.get("de") or {}).get("ok"):
            rep.count("accepted_strings")
        if "display" in m["ops"]:
            rep.count("display_checked" if out.get("disp_de") is not None or out.get("disp_parse") is not None else "display_n/a")
        rep.nontrivial.add((tuple(m["ops"]), m["s"]))
        kinds[tuple(m["ops"])] = kinds.get(tuple(m["ops"]), 0) + 1
        if len(rep.samples) < 5 and (out.get("de") or {}).get("ok"):
            rep.sample({"type": m["type"], "s": m["s"], "out": out})
    rep.notes["conversion_sets_seen"] = {"+".join(k): v for k, v in kinds.items()}
    return rep.finish(util.Findings(PROP, common.PREDS), min_nontrivial=200)

"""Shared pieces of the behavioural checks (C02, C03, C05, ...)."""
import json
import os
import re

from vlib import instgen, oracle, pipeline, schemagen, util, vgen
from vlib.driver import norm

ORACLE_ASSUMPTIONS = [
    "oracle: python jsonschema 4.26 Draft7Validator on the original document after rewriting recognised "
    "integer formats into minimum/maximum",
    "instances: integers written as JSON integers within i64; floats are short dyadic rationals",
    "regex patterns from a pool on which python re.search and ECMAScript agree",
    "string length counted in Unicode scalar values; no surrogates",
    "formatted strings (uuid/date/date-time/ip*) only in the canonical spelling, oracle uses strict format checks",
    "generated code compiled with rustc 1.80.1 against serde/serde_json/chrono/uuid/regress at the repo's locked versions",
]


def site_of(msg):
    """Normalise an error message into a site key (identifiers/literals abstracted)."""
    if not msg:
        return "<none>"
    m = str(msg)
    m = re.sub(r" at line \d+ column \d+", "", m)
    m = re.sub(r"`[^`]*`", "`_`", m)
    m = re.sub(r'"[^"]*"', '"_"', m)
    m = re.sub(r"\d+", "N", m)
    return m[:120]


def add_defaults(doc, r, p=0.35):
    """Attach oracle-checked valid defaults to some optional scalar-ish properties."""
    defs = doc.get("definitions", {})
    ig = instgen.InstGen(r, defs, undeclared=False)
    for s in list(walk_doc(doc)):
        if not (isinstance(s, dict) and s.get("type") == "object" and isinstance(s.get("properties"), dict)):
            continue
        req = set(s.get("required", []))
        for k, ps in s["properties"].items():
            if k in req or not isinstance(ps, dict) or "$ref" in ps or r.random() > p:
                continue
            is_map = ps.get("type") == "object" and not ps.get("properties") and isinstance(ps.get("additionalProperties"), dict)
            if ps.get("type") not in ("string", "integer", "boolean", "number", "array") and "enum" not in ps and not is_map:
                continue
            try:
                v = ig.inst(ps, 0, minimal=r.random() < 0.3)
                if r.random() < 0.2 and "enum" not in ps:
                    # the type's own zero value as the declared default ("" / 0 / false / [] / {})
                    v = {"string": "", "integer": 0, "boolean": False, "number": 0.5, "array": [], "object": {}}[ps["type"]]
                elif (is_map or ps.get("type") == "array") and not v:
                    v = ig.inst(ps, 0, minimal=False)   # prefer a NON-empty default for containers
            except Exception:
                continue
            if pipeline.within_i64(v) and oracle.valid_against(ps, v, defs):
                ps["default"] = v
    return doc


def gen_docs(prop, seed, n, profile="F", replay=None, max_depth=3, features=None, defaults=0.0):
    """List of (doc_id, doc, constructors_used)."""
    if replay:
        data = json.load(open(replay))
        first = data.get("first", data)
        doc = first.get("doc") or (first.get("case") or {}).get("doc")
        if doc is None:
            raise RuntimeError("replay file has no embedded document")
        return [("replay", doc, ["replay"])]
    out = []
    for i in range(n):
        r = util.rng(seed, prop, "doc", i)
        g = schemagen.SchemaGen(r, profile=profile, max_depth=max_depth, features=features)
        doc = g.document()
        used = sorted(set(g.used))
        if defaults and r.random() < defaults:
            doc = add_defaults(doc, r)
            used = used + ["defaults"]
        out.append(("d%04d" % i, doc, used))
    # recursive reference graphs (same builder as C07): optional / nullable / tuple / array / map cycles
    if profile in ("F", "C05"):
        from . import c07
        for i in range(max(6, n // 6)):
            r = util.rng(seed, prop, "graph", i)
            k = r.randrange(1, 5)
            nks = [r.choice(c07.NODE_KINDS) for _ in range(k)]
            edges = [(r.randrange(k), r.randrange(k), r.choice(c07.EDGE_KINDS)) for _ in range(r.randrange(k, 2 * k + 2))]
            doc, eff = c07.build_doc(k, nks, edges)
            if any(isinstance(s_, dict) and s_.get("$ref") == "#/definitions/" + nm for nm, s_ in doc["definitions"].items()):
                continue  # bare self-alias: recorded finding KF-C01-2
            out.append(("r%04d" % i, doc, ["recursive_graph", "ref"]))
    # optional container members (map / array / set) whose schema default is NOT empty: an instance that carries
    # the member as {} / [] must keep it (or restore exactly it) through the round trip
    if defaults:
        vals = [({"type": "string"}, "standard"), ({"type": "integer"}, 7), ({"type": "boolean"}, True),
                ({"type": "string", "enum": ["lo", "hi"]}, "hi"), ({}, {"k": [1]}),
                ({"type": "array", "items": {"type": "integer"}}, [1, 2])]
        for i in range(10):
            r = util.rng(seed, prop, "cdef", i)
            props = {"name": {"type": "string"}}
            for j in range(r.randrange(1, 4)):
                vs, vv = r.choice(vals)
                shape = r.choice(["map", "map", "array", "set"])
                if shape == "map":
                    ps = {"type": "object", "additionalProperties": dict(vs) if vs else True,
                          "default": {r.choice(["tier", "a b", "x"]): vv}}
                elif shape == "array":
                    ps = {"type": "array", "items": dict(vs), "default": [vv]}
                else:
                    ps = {"type": "array", "items": {"type": "string"}, "uniqueItems": True, "default": ["u"]}
                props["c%d" % j] = ps
            inner = {"type": "object", "properties": props, "required": ["name"]}
            doc = {"definitions": {"Holder": inner}} if i % 3 else \
                {"definitions": {"Holder": {"oneOf": [dict(inner, properties=dict(props, kind={"type": "string", "enum": ["a"]}),
                                                            required=["name", "kind"]),
                                                       {"type": "object", "properties": {"kind": {"type": "string", "enum": ["b"]}},
                                                        "required": ["kind"]}]}}}
            out.append(("cd%03d" % i, doc, ["defaults", "container_default", "object"]))
    # optional members whose declared default is the type's own zero value ("" / 0 / false / [] / {} / null)
    if defaults:
        zero = [("s", {"type": "string"}, ""), ("i", {"type": "integer"}, 0), ("u", {"type": "integer", "format": "uint8"}, 0),
                ("b", {"type": "boolean"}, False), ("n", {"type": "number"}, 0.0), ("a", {"type": "array", "items": {"type": "string"}}, []),
                ("m", {"type": "object", "additionalProperties": {"type": "integer"}}, {}),
                ("o", {"type": ["string", "null"]}, None), ("e", {"type": "string", "enum": ["", "y"]}, ""),
                ("c", {"type": "string", "maxLength": 4}, ""),
                # integer defaults that an f64 cannot hold exactly, and the ends of the 64-bit ranges
                ("big", {"type": "integer", "format": "int64"}, 9007199254740993),
                ("neg", {"type": "integer", "format": "int64"}, -9007199254740993),
                ("imax", {"type": "integer", "format": "int64"}, 9223372036854775807),
                ("imin", {"type": "integer", "format": "int64"}, -9223372036854775808),
                ("umax", {"type": "integer", "format": "uint64"}, 18446744073709551615),
                ("u32max", {"type": "integer", "format": "uint32"}, 4294967295),
                ("plainbig", {"type": "integer"}, 9007199254740993)]
        for i in range(10):
            r = util.rng(seed, prop, "zdef", i)
            props = {"id": {"type": "integer"}}
            chosen = zero if i < 2 else r.sample(zero, r.randrange(2, 6))   # the first two documents carry every member
            for nm, sch, z in chosen:
                props[nm] = dict(sch, default=z)
            if i % 3 == 0:
                # an inline struct member with a whole-type default of its own and required members inside
                props["cfg"] = {"type": "object", "properties": {"host": {"type": "string"}, "port": {"type": "integer", "format": "uint16"},
                                                                  "tls": {"type": "boolean", "default": True}},
                                "required": ["host"] + (["port"] if r.random() < 0.5 else []),
                                "default": {"host": "localhost", "port": 8080}}
            req = ["id"] + [n_ for n_ in props if n_ not in ("id", "cfg") and r.random() < 0.3]   # a default does not lift `required`
            if i == 1:
                req = ["id"] + [n_ for n_ in props if n_ not in ("id", "cfg")]   # ... every defaulted member required
            doc = {"definitions": {"Zeroed": {"type": "object", "properties": props, "required": req}}}
            if i % 2:
                doc["definitions"]["Zeroed"]["additionalProperties"] = False
            out.append(("zd%03d" % i, doc, ["defaults", "zero_default", "object"]))
    if profile in ("F", "C05"):
        # payloads that are CLOSED objects WITHOUT members (only {} is valid) in every union shape
        empty = {"type": "object", "additionalProperties": False}
        unions = {
            "external": {"oneOf": [{"type": "string", "enum": ["idle"]},
                                   {"type": "object", "required": ["reset"], "properties": {"reset": dict(empty)}, "additionalProperties": False},
                                   {"type": "object", "required": ["set"], "properties": {"set": {"type": "integer"}}, "additionalProperties": False}]},
            # (wrappers closed as well: a closed content under an open wrapper is the recorded region KF-C02-3 / KF-C05-2)
            "adjacent": {"oneOf": [{"type": "object", "properties": {"kind": {"type": "string", "enum": ["cleared"]}, "data": dict(empty)},
                                    "required": ["kind", "data"], "additionalProperties": False},
                                   {"type": "object", "properties": {"kind": {"type": "string", "enum": ["filled"]}, "data": {"type": "integer"}},
                                    "required": ["kind", "data"], "additionalProperties": False}]},
            "untagged": {"oneOf": [dict(empty), {"type": "integer"}, {"type": "array", "items": {"type": "string"}}]},
            "member": {"type": "object", "properties": {"nothing": dict(empty), "n": {"type": "integer"}}, "required": ["nothing"]},
        }
        for j, (nm, sch) in enumerate(unions.items()):
            out.append(("ep%02d" % j, {"definitions": {"EmptyPayload": sch}}, ["empty_closed_payload", nm, "object"]))
        # an overlay that only CLOSES a referenced open object (and repeats its members with permissive schemas)
        base = {"type": "object", "properties": {"name": {"type": "string"}, "size": {"type": "integer"}}, "required": ["name"]}
        for j, ov in enumerate([{"additionalProperties": False, "properties": {"name": {}, "size": {}}},
                                {"type": "object", "additionalProperties": False, "properties": {"name": {}, "size": {}}},
                                {"type": "object", "additionalProperties": False, "properties": {"name": True, "size": True}}]):
            for order in (0, 1):
                branches = [{"$ref": "#/definitions/Base"}, ov]
                out.append(("co%02d" % (2 * j + order), {"definitions": {"Base": base, "Closed": {"allOf": branches[::-1] if order else branches}}},
                            ["closing_overlay", "allof_ref", "object"]))
    if profile in ("F", "C05"):
        # externally tagged unions that mix closed struct payloads with other payload kinds, in every order
        closed = {"type": "object", "properties": {"x": {"type": "integer"}, "y": {"type": "string"}}, "required": ["x"],
                  "additionalProperties": False}
        vs_ = [("Shape", closed), ("Count", {"type": "integer"}), ("Tags", {"type": "array", "items": {"type": "string"}}),
               ("Other", dict(closed, properties={"z": {"type": "boolean"}}, required=[]))]
        for j, order in enumerate([[0, 1, 2], [1, 0, 2], [1, 2, 0], [0, 3, 1], [3, 1, 0]]):
            branches = [{"type": "object", "required": [vs_[k][0]], "properties": {vs_[k][0]: vs_[k][1]}, "additionalProperties": False}
                        for k in order]
            if j % 2:
                branches.append({"type": "string", "enum": ["Nothing"]})
            out.append(("ev%02d" % j, {"definitions": {"Ev": {"oneOf": branches}}}, ["oneof_external", "closed", "variant_order"]))
    if profile in ("F", "C05"):
        # unions of objects sharing a required string member that is an enum of SEVERAL values in some branch (no serde tag)
        for j, (e1, e2) in enumerate([(["circle", "ellipse"], ["square"]), (["a"], ["b", "c", "d"]), (["x", "y"], ["z", "w"])]):
            out.append(("md%02d" % j, {"definitions": {"Shape": {"oneOf": [
                {"type": "object", "properties": {"kind": {"type": "string", "enum": e1}, "r": {"type": "number"}}, "required": ["kind", "r"]},
                {"type": "object", "properties": {"kind": {"type": "string", "enum": e2}, "side": {"type": "integer"}},
                 "required": ["kind", "side"]}]}}}, ["oneof_objects", "multi_valued_discriminator"]))
        # one member declared as number in one allOf branch and integer in another (every integer is a number), both orders,
        # inline and through a reference
        num_, int_ = {"type": "number"}, {"type": "integer"}
        for j, (a_, b_) in enumerate([(num_, int_), (int_, num_)]):
            br = [{"type": "object", "properties": {"id": {"type": "string"}, "value": a_}, "required": ["id"]},
                  {"type": "object", "properties": {"value": b_, "unit": {"type": "string"}}}]
            out.append(("ni%02d" % j, {"definitions": {"Reading": {"allOf": br}}}, ["allof_objects", "number_integer"]))
            out.append(("ni%02d" % (j + 2), {"definitions": {"Part": br[0], "Reading": {"allOf": [{"$ref": "#/definitions/Part"}, br[1]]}}},
                        ["allof_objects", "allof_ref", "number_integer"]))
        # a closed branch next to a branch that spells out additionalProperties: true
        for j, order in enumerate([(0, 1), (1, 0)]):
            br = [{"type": "object", "properties": {"name": {"type": "string"}}, "required": ["name"], "additionalProperties": False},
                  {"type": "object", "properties": {"name": {}}, "additionalProperties": True}]
            out.append(("ct%02d" % j, {"definitions": {"Closed": {"allOf": [br[order[0]], br[order[1]]]}}}, ["allof_objects", "closed_and_explicitly_open"]))
    if profile in ("F", "C05"):
        # strings whose bounds sit at the end of their range, and enums whose values differ in surrounding whitespace only
        out.append(("ds00", {"definitions": {
            "Empty": {"type": "string", "maxLength": 0}, "EmptyPat": {"type": "string", "maxLength": 0, "pattern": "^[a-z]*$"},
            "AnyLen": {"type": "string", "minLength": 0}, "One": {"type": "string", "minLength": 1, "maxLength": 1},
            "Holder": {"type": "object", "properties": {"e": {"$ref": "#/definitions/Empty"},
                                                        "inline": {"type": "string", "maxLength": 0}}}}},
                    ["string_constrained", "degenerate_bounds"]))
        # (typify refuses these today -- the values collide as identifiers -- which satisfies the properties; a change that
        # makes it accept them must keep every value)
        out.append(("ds01", {"definitions": {"Padded": {"type": "string", "enum": ["tab", "tab ", "other"]}}}, ["string_enum", "padded_values"]))
        out.append(("ds02", {"definitions": {"Blank": {"type": "string", "enum": ["", " ", "x"]}}}, ["string_enum", "padded_values"]))
    if profile in ("F", "C05"):
        # OPTIONAL containers that may not be empty when present: omitted must stay omitted
        oc = {"type": "object", "required": ["name"], "properties": {
            "name": {"type": "string"},
            "labels": {"type": "array", "uniqueItems": True, "items": {"type": "string"}, "minItems": 1},
            "codes": {"type": "array", "uniqueItems": True, "items": {"type": "integer"}, "minItems": 2, "maxItems": 4},
            "list": {"type": "array", "items": {"type": "string"}, "minItems": 1},
            "grid": {"type": "array", "items": {"type": "array", "items": {"type": "integer"}, "minItems": 1}, "minItems": 1},
            "attrs": {"type": "object", "additionalProperties": {"type": "string"}, "minProperties": 1}}}
        out.append(("oc00", {"definitions": {"Holder": oc}}, ["optional_nonempty_container", "set", "object"]))
        out.append(("oc01", {"definitions": {"Holder": {"oneOf": [
            dict(oc, properties=dict(oc["properties"], kind={"type": "string", "enum": ["a"]}), required=["name", "kind"]),
            {"type": "object", "properties": {"kind": {"type": "string", "enum": ["b"]}}, "required": ["kind"]}]}}},
            ["optional_nonempty_container", "oneof_internal", "set"]))
    if profile in ("F", "C05"):
        # names that are required without a schema of their own, next to every form of additionalProperties
        for j, ap in enumerate([None, True, {"type": "string"}, {"type": "integer"}]):
            for props in ({}, {"id": {"type": "integer"}}):
                d_ = {"type": "object", "required": ["primary"] + (["id"] if props else []), "properties": dict(props)}
                if not props:
                    del d_["properties"]
                if ap is not None:
                    d_["additionalProperties"] = ap
                out.append(("mk%02d" % (2 * j + (1 if props else 0)), {"definitions": {"Labels": d_}},
                            ["required_without_schema", "object", "map" if isinstance(ap, dict) else "struct"]))
    if prop == "C03":
        # chains of $ref with sibling keywords (typify merges the siblings; a draft-07 validator ignores them, so
        # for open objects every instance below is valid and each member is declared somewhere along the chain)
        for j in range(4):
            r = util.rng(seed, prop, "chain", j)
            tys = [{"type": "string"}, {"type": "integer"}, {"type": "boolean"}]
            defs = {"Base": {"type": "object", "properties": {"base": r.choice(tys)}}}
            prev = "Base"
            for lvl in range(r.randrange(2, 4)):
                nm = "Level%d" % lvl
                defs[nm] = {"$ref": "#/definitions/" + prev, "properties": {"own%d" % lvl: r.choice(tys)}}
                prev = nm
            out.append(("ch%02d" % j, {"definitions": defs}, ["ref_chain_siblings", "ref", "object"]))
    # pinned corpus documents are always included
    cdir = os.path.join(util.VERIF, "corpus", prop)
    if os.path.isdir(cdir):
        for fn in sorted(os.listdir(cdir)):
            if fn.endswith(".json"):
                doc = json.load(open(os.path.join(cdir, fn)))
                if "definitions" in doc:
                    out.append(("k_" + re.sub(r"[^A-Za-z0-9]", "_", fn[:-5]), doc, ["corpus"]))
    return out


class FaithfulRun:
    def __init__(self):
        self.probes = []
        self.outs = {}
        self.hook_counts = {}
        self.ctor_counts = {}
        self.cases = {}
        self.results = {}
        self.run = None

    def case_of(self, pr):
        c = self.cases.get(pr["case"])
        return {"id": pr["case"], "settings": c.get("settings") if c else None}


def count_ingest(rep, results):
    for cid, res in results.items():
        st = vgen.ingest_status(res)
        rep.count("ingest_" + st)
        if st == "ok":
            if res.get("render") != "ok":
                rep.count("render_panic")
            elif res.get("syn") != "ok":
                rep.count("syn_error")


def faithful_run(prop, rep, docs, seed, n_inst=10, want_invalid=True, settings_fn=None,
                 n_mut=8, probe_ops=("de",), name="main", extra_probe_fn=None, want_builder=False,
                 undeclared=True, string_mutants=0, alt_doc_fn=None, skip_mutants=(), case_probe_fn=None):
    """docs -> vgen -> stage-2 -> 'de' probes with oracle classification."""
    fr = FaithfulRun()
    cases = []
    docmap = {}
    for did, doc, used in docs:
        settings = settings_fn(did, doc) if settings_fn else {}
        cases.append({"id": did, "settings": settings, "history": [{"op": "root", "schema": doc}]})
        docmap[did] = (doc, used)
        for u in used:
            fr.ctor_counts[u] = fr.ctor_counts.get(u, 0) + 1
    run = pipeline.Run(prop, name)
    fr.run = run
    results = run.vgen(cases)
    fr.results = results
    fr.cases = run.cases
    count_ingest(rep, results)
    for res in results.values():
        for lab in vgen.hook_labels(res):
            fr.hook_counts[lab] = fr.hook_counts.get(lab, 0) + 1
    ok_ids = {cid for cid, res in results.items() if res.get("ingest_ok") and res.get("syn") == "ok"}
    if not ok_ids:
        rep.inconclusive.append("no case was ingested")
        return fr
    run.compile(ids=ok_ids, want_builder=want_builder)
    for cid, why in run.s2.removed.items():
        rep.count("compile_failed_" + why)
    rep.notes["stage2"] = {"cases": len(run.s2.order), "removed": len(run.s2.removed),
                           "rounds": run.s2.rounds, "build_s": round(run.s2.build_s, 1)}
    pid = 0
    for cid in sorted(ok_ids):
        if cid in run.s2.removed:
            continue
        res = results[cid]
        doc, used = docmap[cid]
        orc = oracle.Oracle(doc)
        alt = oracle.Oracle(alt_doc_fn(doc)) if alt_doc_fn else None
        defs = doc.get("definitions", {})
        info = run.info.get(cid, {})
        if case_probe_fn:
            for p_ in case_probe_fn(cid, res, info, util.rng(seed, prop, "caseprobe", cid)):
                pid += 1
                p_["pid"] = pid
                fr.probes.append(p_)
        for dname, dschema in defs.items():
            d = (res.get("defs") or {}).get(dname) or {}
            tname = norm(d.get("name") or "")
            if tname not in info:
                rep.count("def_not_a_named_type")
                continue
            r = util.rng(seed, prop, "inst", cid, dname)
            ig = instgen.InstGen(r, defs, undeclared=undeclared)
            base = ig.instances(dschema, n_inst)
            cands = [("gen", None, v) for v in base]
            for v in base[: max(2, n_inst // 3)]:
                for lab, path, m in instgen.mutants(v, r, limit=n_mut):
                    if lab not in skip_mutants:
                        cands.append((lab, path, m))
                if string_mutants:
                    for lab, path, m in instgen.string_mutants(v, r, limit=string_mutants):
                        cands.append((lab, path, m))
            seen = set()
            sshape = pipeline.schema_shape(dschema)
            for lab, path, v in cands:
                try:
                    text = instgen.to_text(v)
                except ValueError:
                    continue
                if text in seen:
                    continue
                seen.add(text)
                if not (pipeline.within_u64(v) if lab == "gen" else pipeline.within_i64(v)):
                    # mutants may push an unformatted integer beyond i64, the documented fallback type (C10)
                    rep.count("instance_outside_i64_skipped")
                    continue
                if lab == "gen" and not pipeline.within_i64(v):
                    rep.count("instance_with_u64_value")
                try:
                    valid = orc.valid(v, dname)
                except Exception as e:  # oracle failure is inconclusive for this instance
                    rep.count("oracle_error")
                    continue
                if not valid and not want_invalid:
                    rep.count("oracle_invalid_skipped")
                    continue
                valid_alt = None
                if alt is not None:
                    try:
                        valid_alt = alt.valid(v, dname)
                    except Exception:
                        rep.count("oracle_error")
                        continue
                meta = {"doc": doc, "def": dname, "schema": dschema, "inst": v, "text": text, "valid": valid,
                        "valid_alt": valid_alt,
                        "label": lab, "path": path, "type": tname, "used": used, "sshape": sshape,
                        "vshape": pipeline.value_shape(v),
                        "nontrivial": len(used) >= 2 and isinstance(v, (dict, list))}
                for op in probe_ops:
                    if op in info[tname]:
                        pid += 1
                        fr.probes.append({"pid": pid, "case": cid, "ty": tname, "op": op,
                                          "input": text, "meta": meta})
            if extra_probe_fn:
                for p in extra_probe_fn(cid, res, dname, dschema, tname, info[tname], orc, r):
                    pid += 1
                    p["pid"] = pid
                    fr.probes.append(p)
    wire = [{k: v for k, v in p.items() if k != "meta"} for p in fr.probes]
    outs, aborted, timed, skipped = run.probe(wire)
    fr.outs = outs
    for k, info_ in aborted.items():
        fr.outs[k] = {"panic": "process abort: rc=%s %s" % (info_.get("rc"), (info_.get("stderr") or "")[-300:])}
    if timed:
        rep.count("probes_timed_out", len(timed))
    return fr


# -- cause predicates for known findings (shared) ---------------------------

def _walk_schemas(s):
    if isinstance(s, dict):
        yield s
        for k, v in s.items():
            if k in ("properties", "patternProperties", "definitions") and isinstance(v, dict):
                for x in v.values():
                    yield from _walk_schemas(x)
            elif k in ("oneOf", "anyOf", "allOf") and isinstance(v, list):
                for x in v:
                    yield from _walk_schemas(x)
            elif k in ("items",):
                if isinstance(v, list):
                    for x in v:
                        yield from _walk_schemas(x)
                else:
                    yield from _walk_schemas(v)
            elif k in ("additionalProperties", "not", "additionalItems") and isinstance(v, dict):
                yield from _walk_schemas(v)


def walk_doc(doc):
    yield from _walk_schemas(doc)


PREDS = {}


def pred(f):
    PREDS[f.__name__] = f
    return f


@pred
def corpus_doc(v, name=None, site_re=None):
    """Finding identified by the pinned corpus document (case id k_<name>) and, optionally, the site."""
    c = v.get("case") or {}
    if c.get("id") != "k_" + re.sub(r"[^A-Za-z0-9]", "_", name or ""):
        return False
    return re.search(site_re, v.get("site") or "") is not None if site_re else True


@pred
def cause_is(v, cause=None):
    """The check itself established the named mechanism for this violation (see the check's code)."""
    return cause is not None and v.get("cause") == cause


def boxed_option_fields(res):
    """Wire names of struct fields typed Box<Option<..>> that carry no skip_serializing_if."""
    out = set()
    for f in res.get("facts") or []:
        if f["kind"] == "struct":
            for fld in f.get("fields") or []:
                ty = norm(fld.get("ty") or "")
                sd = fld.get("serde") or {}
                if ty.startswith("::std::boxed::Box<::std::option::Option<") and "skip_serializing_if" not in sd:
                    out.add(sd.get("rename") if isinstance(sd.get("rename"), str) else fld.get("ident"))
        if f["kind"] == "enum":
            for var in f.get("variants") or []:
                for fld in var.get("fields") or []:
                    ty = norm(fld.get("ty") or "")
                    sd = fld.get("serde") or {}
                    if ty.startswith("::std::boxed::Box<::std::option::Option<") and "skip_serializing_if" not in sd:
                        out.add(sd.get("rename") if isinstance(sd.get("rename"), str) else fld.get("ident"))
    return out

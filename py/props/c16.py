"""C16 — the type space stays consistent across any history of additions."""
import copy
import json

from vlib import pipeline, schemagen, util, vgen
from vlib.driver import norm
from . import common, workloads

PROP = "C16"


def sub_schemas(defs):
    """Ref-free inline sub-schemas usable for add_type."""
    out = []
    for s in defs.values():
        for x in common.walk_doc(s):
            if isinstance(x, dict) and x is not s and not workloads.ref_targets(x) and \
                    x.get("type") in ("object", "array", "string", "integer") and len(json.dumps(x)) < 600:
                out.append(x)
    return out


def gen_history(seed, i):
    r = util.rng(seed, PROP, "hist", i)
    g = schemagen.SchemaGen(r, profile="F", max_depth=2, avoid_known=True)
    doc = g.document(ndefs=r.randrange(2, 7))
    defs = doc["definitions"]
    if r.random() < 0.3:
        # an untagged union of string-like definitions, named so that it sorts before (or after) its alternatives:
        # its conversion impls are decided from what the alternatives answer at the time it is finalised
        un = r.choice(["ASelector", "ZSelector"])
        defs[un] = {"oneOf": [{"$ref": "#/definitions/MZoneName"}, {"$ref": "#/definitions/MZoneSize"}]}
        defs["MZoneName"] = {"type": "string", "enum": ["north", "south-east"]}
        defs["MZoneSize"] = r.choice([{"type": "string", "pattern": "^[0-9]+(k|m)$"}, {"type": "string", "enum": ["s", "xl"]},
                                      {"type": "string", "format": "uuid"}])
    comps = workloads.components(defs)
    r.shuffle(comps)
    steps = []
    added = []
    pending = list(comps)
    subs = sub_schemas(defs)
    n_steps = r.randrange(2, 30 if i % 4 else 12)
    if i % 50 == 7:
        n_steps = r.randrange(150, 400)   # a generator driving one space with hundreds of calls (progenitor style)
    root_titles = ["RootAlpha", "RootBeta", "RootGamma", "root-delta"]
    r.shuffle(root_titles)
    name_pool = ["Hint", "Other", "Thing", "Item"] + [workloads.sanitize_guess(n) for n in defs]
    repeats = 0
    while len(steps) < n_steps:
        k = r.random()
        if pending and (k < 0.35 or not added):
            c = pending.pop()
            order = list(c)
            r.shuffle(order)
            steps.append({"op": "refs", "defs": [[n, defs[n]] for n in order]})
            added += c
        elif k < 0.43 and root_titles and i % 3 == 0:
            # a titled root document of its own (add_root_schema may be called repeatedly on one space)
            t = root_titles.pop()
            rd = {"title": t, "type": "object",
                  "properties": {"n": {"type": "integer"}, "next": {"$ref": "#"} if r.random() < 0.5 else {"type": "string"}},
                  "definitions": {t + "Part": {"type": "object", "properties": {"p": {"type": "boolean"}}}}}
            steps.append({"op": "root", "schema": rd, "expect_name": workloads.sanitize_guess(t)})
        elif k < 0.55 and added:
            n = r.choice(added)
            steps.append({"op": "type", "schema": {"$ref": "#/definitions/" + n}})
        elif k < 0.8 and subs:
            s = copy.deepcopy(r.choice(subs))
            pool = name_pool
            needs_name = not (s.get("type") in ("array", "integer") or
                              (s.get("type") == "string" and set(s) <= {"type", "format"}))
            hint = r.choice(pool) if (needs_name or r.random() < 0.6) else None
            steps.append({"op": "type", "schema": s, "name": hint})
        elif steps and k < 0.95:
            prev = [s for s in steps if s["op"] == "type"]
            if prev:
                steps.append(copy.deepcopy(r.choice(prev)))
                repeats += 1
        else:
            steps.append({"op": "type", "schema": r.choice([
                {"type": "array", "items": {"type": r.choice(["string", "integer", "boolean"])}},
                {"type": ["string", "null"]}, {"type": ["integer", "null"], "format": "int32"},
                {"type": "array", "items": [{"type": "string"}, {"type": "integer"}], "minItems": 2, "maxItems": 2},
                {"type": "array", "items": {"type": "boolean"}, "minItems": 3, "maxItems": 3},
                {"type": "array", "items": {"type": ["string", "null"]}},
                {"type": "object", "additionalProperties": {"type": ["integer", "null"]}}])})
    return doc, steps, repeats


def key_of(f):
    if f["kind"] in ("struct", "enum", "fn", "mod"):
        return (f["mod"], f["kind"], f["name"])
    if f["kind"] == "impl":
        return (f["mod"], "impl", norm(f.get("trait") or ""), norm(f["self_ty"]))
    return (f["mod"], f["kind"], f.get("text", "")[:40])


def item_map(res):
    out = {}
    for f in res.get("facts") or []:
        if f["kind"] == "mod":
            continue
        out.setdefault(key_of(f), []).append(f.get("h"))
    return {k: sorted(map(str, v)) for k, v in out.items()}


NUMERIC = ("i8", "u8", "i16", "u16", "i32", "u32", "i64", "u64", "f32", "f64", "::std::num::NonZero")
FITS = {
    "array": lambda t: t["kind"] in ("vec", "set", "tuple", "array"),
    "string": lambda t: t["kind"] in ("string", "enum") or (t["kind"] == "builtin" and not (t.get("builtin") or "").startswith(NUMERIC)
                                                             and t.get("builtin") != "bool"),
    "integer": lambda t: t["kind"] == "builtin" and (t.get("builtin") or "").startswith(NUMERIC),
    "number": lambda t: t["kind"] == "builtin" and (t.get("builtin") or "").startswith(NUMERIC),
    "boolean": lambda t: t["kind"] == "builtin" and t.get("builtin") == "bool",
    "object": lambda t: t["kind"] in ("struct", "map", "enum", "unit") or (t["kind"] == "builtin" and "serde_json" in (t.get("builtin") or "")),
}


def kind_mismatch(schema, t, by_id):
    """None, or a label, when the returned type cannot be a type for a schema with an explicit single JSON `type`."""
    if not isinstance(schema, dict) or not isinstance(schema.get("type"), str) or schema["type"] not in FITS or \
            "$ref" in schema or any(k in schema for k in ("oneOf", "anyOf", "allOf", "not", "x-rust-type")):
        return None
    # only schemas that convert to UNNAMED types are judged: a name hint cannot apply to them, so typify's reuse of an
    # existing type of that name (its design for named types) cannot be what came back
    unnamed = (schema["type"] == "array" or
               (schema["type"] in ("string", "integer", "number", "boolean") and
                set(schema) <= {"type", "format", "description", "minimum", "maximum", "exclusiveMinimum", "exclusiveMaximum"}
                and not (schema["type"] == "string" and False)))
    if not unnamed:
        return None
    cur = t
    for _ in range(3):          # look through newtypes (constrained / named scalars) and boxes
        if cur["kind"] == "newtype":
            cur = by_id.get(cur["inner"], cur)
        elif cur["kind"] == "box":
            cur = by_id.get(cur["of"], cur)
        else:
            break
    if cur["kind"] == "newtype" or FITS[schema["type"]](cur):
        return None
    return "%s->%s" % (schema["type"], cur["kind"])


def strip_entry(t):
    return {k: v for k, v in t.items() if k not in ("has_impl",)}


def run(tier, seed, replay=None):
    rep = util.Report(PROP, tier, seed)
    N = 500 if tier == "quick" else 8000
    NI = 150 if tier == "quick" else 2000
    rep.rule = ("(1) histories of 2-30 calls (add_ref_types per reference component, add_type with/without name hints, "
                "$ref look-ups, exact repeats) over generated definitions; after every call every type id so far is "
                "re-read through get_type and the output re-rendered. (2) independent additions: one batch vs one call per "
                "component in two different orders; item-name -> item-token maps compared. Non-trivial: history has a "
                "repeat or a by-name/by-structure reuse hook event; distinct by history shape.")
    rep.assumptions = [
        "type ids are 1..n in iter_types() order when every call returned Ok (checked against the ids the API returns)",
        "independent = reference components of one document (definition names are unique, so derived names do not clash)",
    ]
    cases, meta = [], {}
    for i in range(N):
        doc, steps, repeats = gen_history(seed, i)
        cid = "h%05d" % i
        cases.append({"id": cid, "settings": {"struct_builder": i % 3 == 0}, "history": steps,
                      "opts": {"snap": True, "has_impl": False, "code": False, "resolve_defs": False}})
        meta[cid] = {"kind": "history", "repeats": repeats, "doc": doc}
    # independent additions: three histories per document
    for i in range(NI):
        r = util.rng(seed, PROP, "indep", i)
        g = schemagen.SchemaGen(r, profile="F", max_depth=2, avoid_known=True)
        doc = g.document(ndefs=r.randrange(3, 8))
        defs = doc["definitions"]
        comps = workloads.components(defs)
        if len(comps) < 2:
            continue
        o1 = list(comps)
        o2 = list(comps)
        r.shuffle(o1)
        o2 = list(reversed(o1))
        variants = {
            "one": [{"op": "refs", "defs": [[n, defs[n]] for c in comps for n in c]}],
            "split1": [{"op": "refs", "defs": [[n, defs[n]] for n in c]} for c in o1],
            "split2": [{"op": "refs", "defs": [[n, defs[n]] for n in c]} for c in o2],
        }
        for vn, hist in variants.items():
            cid = "i%05d_%s" % (i, vn)
            cases.append({"id": cid, "settings": {}, "history": hist,
                          "opts": {"has_impl": False, "code": False, "types": False}})
            meta[cid] = {"kind": "indep", "group": i, "variant": vn, "doc": doc}
    for name, c in workloads.corpus_cases(PROP):
        import re
        cid = "k_" + re.sub(r"[^A-Za-z0-9]", "_", name)
        c = dict(c, id=cid, opts={"snap": True, "has_impl": False, "code": False, "resolve_defs": False})
        cases.append(c)
        meta[cid] = {"kind": "history", "repeats": 0, "doc": None}
    if replay:
        data = json.load(open(replay))
        f = data.get("first") or data
        cs = f.get("cases") or [f["case"]]
        cases = cs
        meta = {c["id"]: (f.get("meta") or {}).get(c["id"], {"kind": "history", "repeats": 0}) for c in cs}
    run_ = pipeline.Run(PROP, "main")
    results = run_.vgen(cases, shards=util.NCPU)
    by_case = {c["id"]: c for c in cases}
    groups = {}
    hook_counts = {}
    for cid, res in results.items():
        m = meta[cid]
        st = vgen.ingest_status(res)
        for lab in set(vgen.hook_labels(res)):
            hook_counts[lab] = hook_counts.get(lab, 0) + 1
        if m["kind"] == "indep":
            groups.setdefault(m["group"], {})[m["variant"]] = (cid, res, st)
            continue
        rep.evaluations += 1
        case = by_case[cid]
        snaps = res.get("snaps") or []
        steps = res.get("steps") or []
        if not snaps:
            rep.count("history_rejected_at_first_call")
            continue
        if st != "ok":
            rep.count("history_ended_by_" + st)
        prev = None
        prev_keys = None
        first_ident = {}
        bad = False
        for si, snap in enumerate(snaps):
            step = case["history"][si]
            types = snap.get("types")
            if types is None:
                rep.count("snapshot_failed")
                break
            # (c) no duplicate definitions in any render
            items = snap.get("items")
            if snap.get("render") != "ok":
                rep.violation("render_panic_mid_history", common.site_of(snap.get("render_msg")),
                              {"step": si, "msg": snap.get("render_msg")}, case=case)
                bad = True
                break
            if items is not None:
                names = [tuple(x) for x in items]
                dups = sorted({n for n in names if names.count(n) > 1})
                if dups:
                    rep.violation("duplicate_definition", "after %s" % step["op"],
                                  {"step": si, "dups": dups[:5], "op": step["op"]}, case=case)
                    bad = True
                    break
            # (a) old ids keep resolving to the same thing
            if prev is not None:
                for old, new in zip(prev, types):
                    if strip_entry(old) != strip_entry(new):
                        diff = [k for k in old if old.get(k) != new.get(k)]
                        rep.violation("type_changed", "%s:%s" % (old["kind"], ",".join(diff)),
                                      {"step": si, "op": step["op"], "before": strip_entry(old),
                                       "after": strip_entry(new)}, case=case)
                        bad = True
                        break
                if bad:
                    break
                if len(types) < len(prev):
                    rep.violation("types_disappeared", "-", {"step": si}, case=case)
                    bad = True
                    break
                # what an earlier type answers to has_impl, and the items rendered for it, are part of what it resolves to
                for old, new in zip(prev, types):
                    if old.get("has_impl") != new.get("has_impl"):
                        rep.violation("type_changed", "%s:has_impl" % old["kind"],
                                      {"step": si, "op": step["op"], "type": old["name"], "before": old.get("has_impl"),
                                       "after": new.get("has_impl")}, case=case)
                        bad = True
                        break
                if bad:
                    break
                if prev_keys is not None and snap.get("item_keys") is not None:
                    old_names = {norm(t["name"]) for t in prev if t.get("name") and t["kind"] in ("struct", "enum", "newtype")}
                    def about_old(k):
                        return (k[1] in ("struct", "enum") and norm(k[2] or "") in old_names) or \
                            (k[1] == "impl" and norm((k[4] or "").replace("super::", "")) in old_names)
                    before = {tuple(k) for k in prev_keys if about_old(k)}
                    after = {tuple(k) for k in snap["item_keys"] if about_old(k)}
                    if before != after:
                        diff = sorted(map(str, before ^ after))[:4]
                        rep.violation("earlier_type_rendered_differently", "after %s" % step["op"],
                                      {"step": si, "op": step["op"], "differing_items": diff}, case=case)
                        bad = True
                        break
                    rep.count("earlier_items_stable")
            # id map sanity: the id the API returned names the same thing as iter_types()[id-1]
            ret = (steps[si].get("ret") or {})
            rid = ret.get("id")
            if step.get("op") == "type" and rid is not None and 1 <= rid <= len(types):
                # the type returned for a schema has to be a type FOR that schema: its kind must fit the schema's JSON type
                bad_kind = kind_mismatch(step.get("schema"), types[rid - 1], {t["id"]: t for t in types})
                if bad_kind:
                    rep.violation("returned_type_does_not_fit_schema", bad_kind,
                                  {"step": si, "schema": step.get("schema"), "name_hint": step.get("name"),
                                   "returned": strip_entry(types[rid - 1])}, case=case)
                    bad = True
                    break
                rep.count("returned_type_fits_schema")
            if step.get("op") == "root" and step.get("expect_name") and rid is not None and 1 <= rid <= len(types):
                if norm(types[rid - 1]["name"]) != step["expect_name"]:
                    rep.violation("root_id_resolves_to_other_type", "-",
                                  {"step": si, "title": step["schema"].get("title"), "resolved": types[rid - 1]["name"]},
                                  case=case)
                    bad = True
                    break
                rep.count("root_id_checked")
            if rid is not None:
                if not (1 <= rid <= len(types)):
                    rep.count("id_map_inconsistent")
                else:
                    # (b) re-adding an identical schema returns a type with the same ident and adds nothing
                    key = json.dumps([step.get("schema"), step.get("name")], sort_keys=True)
                    ident = types[rid - 1]["ident"]
                    if key in first_ident:
                        fid, fident, nitems = first_ident[key]
                        if ident != fident:
                            rep.violation("readd_different_ident", "-",
                                          {"step": si, "first": fident, "again": ident, "schema": step.get("schema"),
                                           "name": step.get("name")}, case=case)
                            bad = True
                            break
                        if prev is not None and items is not None and snaps[si - 1].get("items") is not None and \
                                len(items) != len(snaps[si - 1]["items"]):
                            rep.violation("readd_adds_definitions", "-",
                                          {"step": si, "before": len(snaps[si - 1]["items"]), "after": len(items),
                                           "schema": step.get("schema"), "name": step.get("name")}, case=case)
                            bad = True
                            break
                        if prev is not None and len(types) != len(prev):
                            # unnamed types (Option, tuple, array, ...) are entries of the space as well: an identical
                            # schema must find the ones it created the first time
                            rep.violation("readd_grows_type_space", "-",
                                          {"step": si, "before": len(prev), "after": len(types), "first_id": fid, "again_id": rid,
                                           "schema": step.get("schema"), "name": step.get("name")}, case=case)
                            bad = True
                            break
                        rep.count("readd_checked")
                    else:
                        first_ident[key] = (rid, ident, len(items or []))
            prev = types
            prev_keys = snap.get("item_keys")
        if bad:
            continue
        rep.count("history_consistent")
        labs = set(vgen.hook_labels(res))
        if m.get("repeats") or "assign:name_reuse" in labs or "assign:struct_reuse" in labs:
            rep.nontrivial.add((tuple(s["op"] for s in case["history"]), m.get("repeats")))
        if len(rep.samples) < 3:
            rep.sample({"history": [(s["op"], s.get("name")) for s in case["history"]], "calls": len(snaps),
                        "types_at_end": len(prev or [])})
    # (d) independent additions
    for gid, vs in groups.items():
        if len(vs) < 3:
            continue
        rep.evaluations += 1
        sts = {vn: st for vn, (cid, res, st) in vs.items()}
        cs = [by_case[cid] for vn, (cid, res, st) in sorted(vs.items())]
        if len(set(sts.values())) > 1:
            rep.violation("indep_status_differs", "-", {"status": sts}, case=cs[0], cases=cs)
            continue
        if sts["one"] != "ok":
            rep.count("indep_rejected")
            continue
        maps = {vn: item_map(res) for vn, (cid, res, st) in vs.items()}
        if maps["one"] != maps["split1"] or maps["one"] != maps["split2"]:
            a, b = maps["one"], maps["split1"] if maps["one"] != maps["split1"] else maps["split2"]
            diff = sorted(str(k) for k in set(a) | set(b) if a.get(k) != b.get(k))[:8]
            rep.violation("indep_definitions_differ", "-", {"differing_items": diff}, case=cs[0], cases=cs)
            continue
        rep.count("indep_equal")
        rep.nontrivial.add(("indep", gid))
    rep.notes["hook_labels_seen"] = hook_counts
    if not any(k.startswith("assign:") for k in hook_counts):
        rep.inconclusive.append("assign_type hook never fired")
    return rep.finish(util.Findings(PROP, PREDS), min_nontrivial=40)


PREDS = workloads.C01_PREDS

"""C07 — recursive schemas produce finitely sized types; Box only cuts cycles."""
import itertools
import json

from vlib import instgen, oracle, pipeline, util, vgen
from vlib.driver import norm
from . import common

PROP = "C07"

EDGE_KINDS = ["req", "opt", "nullable", "tuple", "array", "vec", "map"]
BY_VALUE = {"req", "opt", "nullable", "tuple", "array", "array32", "array1"}
# fixed arrays at the ends of the range that is emitted inline ([T; 1] .. [T; 32]); used in random graphs and n<=2 extras
EDGE_KINDS_X = EDGE_KINDS + ["array32", "array1"]
NODE_KINDS = ["struct", "alias", "enum"]
# "flat": anyOf of overlapping object schemas, generated as a struct of flattened Option<branch> members (by value)
NODE_KINDS_X = NODE_KINDS + ["flat"]


def ref(j):
    return {"$ref": "#/definitions/N%d" % j}


def edge_schema(kind, j):
    t = ref(j)
    if kind in ("req", "opt"):
        return t
    if kind == "nullable":
        return {"anyOf": [t, {"type": "null"}]}
    if kind == "tuple":
        return {"type": "array", "items": [t, {"type": "integer"}], "minItems": 2, "maxItems": 2}
    if kind == "array":
        return {"type": "array", "items": t, "minItems": 2, "maxItems": 2}
    if kind == "array32":
        return {"type": "array", "items": t, "minItems": 32, "maxItems": 32}
    if kind == "array1":
        return {"type": "array", "items": t, "minItems": 1, "maxItems": 1}
    if kind == "vec":
        return {"type": "array", "items": t}
    if kind == "map":
        return {"type": "object", "additionalProperties": t}
    raise ValueError(kind)


def build_doc(n, node_kinds, edges, order=None):
    """edges: list of (i, j, kind). Returns (doc, effective by-value edge list)."""
    defs = {}
    eff = []
    for i in range(n):
        out = [(j, k) for (a, j, k) in edges if a == i]
        kind = node_kinds[i]
        if kind == "alias" and len(out) == 1:
            j, k = out[0]
            k2 = "req" if k == "opt" else k   # an alias has no optional slot
            defs["N%d" % i] = edge_schema(k2, j)
            if k2 in BY_VALUE:
                eff.append((i, j))
            continue
        if kind == "flat" and out:
            branches = [{"type": "object", "properties": {"own%d" % i: {"type": "integer"}}}]
            for e, (j, k) in enumerate(out):
                if k in ("req", "opt"):
                    branches.append(ref(j))
                    eff.append((i, j))
                else:
                    branches.append({"type": "object", "properties": {"q%d" % e: edge_schema(k, j)}})
                    if k in BY_VALUE:
                        eff.append((i, j))
            defs["N%d" % i] = {"anyOf": branches}
            continue
        if kind == "constrained":
            # an object schema with enumerated values: a constrained newtype around an inner struct
            props = {"leaf": {"type": "integer"}}
            for e, (j, k) in enumerate(out):
                props["p%d" % e] = edge_schema("req" if k == "opt" else k, j)   # all optional inside
                if k in BY_VALUE or k == "opt":
                    eff.append((i, j))
            defs["N%d" % i] = {"type": "object", "properties": props, "enum": [{"leaf": 1}, {"leaf": 2}]}
            continue
        if kind == "enum":
            branches = [{"type": "string", "enum": ["Unit"]}]
            for e, (j, k) in enumerate(out):
                k2 = "req" if k == "opt" else k
                vn = "V%d" % e
                branches.append({"type": "object", "required": [vn], "properties": {vn: edge_schema(k2, j)},
                                 "additionalProperties": False})
                if k2 in BY_VALUE:
                    eff.append((i, j))
            defs["N%d" % i] = {"oneOf": branches}
            continue
        props, req = {"leaf": {"type": "integer"}}, ["leaf"]
        for e, (j, k) in enumerate(out):
            pn = "p%d" % e
            props[pn] = edge_schema(k, j)
            if k != "opt":
                req.append(pn)
            if k in BY_VALUE:
                eff.append((i, j))
        defs["N%d" % i] = {"type": "object", "properties": props, "required": req}
    if order is not None:
        defs = {("N%d" % i): defs["N%d" % i] for i in order}
    return {"definitions": defs}, eff


def has_cycle(n, eff):
    adj = {i: set() for i in range(n)}
    for a, b in eff:
        adj[a].add(b)
    color = {}

    def dfs(u):
        color[u] = 1
        for v in adj[u]:
            if color.get(v) == 1:
                return True
            if v not in color and dfs(v):
                return True
        color[u] = 2
        return False

    return any(i not in color and dfs(i) for i in range(n))


def containment_cycle(types):
    """Independent check over the public introspection dump. Returns a cycle
    (list of type ids) through by-value edges, or None."""
    by_id = {t["id"]: t for t in types}

    def children(t):
        k = t["kind"]
        if k == "struct":
            return [p["type_id"] for p in t["props"]]
        if k == "enum":
            out = []
            for v in t["variants"]:
                out += v["types"]
                out += [p[1] for p in v["props"]]
            return out
        if k == "newtype":
            return [t["inner"]]
        if k in ("option", "array"):
            return [t["of"]]
        if k == "tuple":
            return list(t["items"])
        return []  # box, vec, set, map, builtin, unit, string: heap or leaf

    color, stack = {}, []

    def dfs(u):
        color[u] = 1
        stack.append(u)
        for v in children(by_id[u]):
            if v not in by_id:
                continue
            if color.get(v) == 1:
                return stack[stack.index(v):] + [v]
            if v not in color:
                c = dfs(v)
                if c:
                    return c
        stack.pop()
        color[u] = 2
        return None

    import sys
    sys.setrecursionlimit(10000)
    for t in types:
        if t["id"] not in color:
            c = dfs(t["id"])
            if c:
                return c
    return None


def enumerate_graphs(tier, seed):
    """(label, n, node_kinds, edges, order)"""
    out = []
    r = util.rng(seed, PROP, "enum")
    # n = 1: every subset of the 7 edge kinds as parallel self loops, every node kind
    for nk in NODE_KINDS:
        for mask in range(1, 2 ** len(EDGE_KINDS)):
            edges = [(0, 0, k) for b, k in enumerate(EDGE_KINDS) if mask >> b & 1]
            out.append(("n1", 1, [nk], edges, None))
    # n = 2: each ordered pair carries one edge kind or none (8^4), every node-kind pair, both orders
    pairs = [(0, 0), (0, 1), (1, 0), (1, 1)]
    full2 = []
    for nks in itertools.product(NODE_KINDS, repeat=2):
        for choice in itertools.product([None] + EDGE_KINDS, repeat=4):
            edges = [(a, b, k) for (a, b), k in zip(pairs, choice) if k]
            if not edges:
                continue
            full2.append(("n2", 2, list(nks), edges, None))
    # n = 3 over {req, opt, variant->(enum node)} : 3^9 x 2^3
    pairs3 = [(a, b) for a in range(3) for b in range(3)]
    full3 = []
    for nks in itertools.product(["struct", "enum"], repeat=3):
        for choice in itertools.product([None, "req", "opt"], repeat=9):
            edges = [(a, b, k) for (a, b), k in zip(pairs3, choice) if k]
            if len(edges) < 2:
                continue
            full3.append(("n3", 3, list(nks), edges, None))
    # flattened-anyOf nodes: n=1 self loops over every edge kind, n=2 with a second node of every kind
    flat = []
    for k in EDGE_KINDS:
        flat.append(("f1", 1, ["flat"], [(0, 0, k)], None))
    for nk in NODE_KINDS_X:
        for k1 in EDGE_KINDS:
            for k2 in EDGE_KINDS:
                flat.append(("f2", 2, ["flat", nk], [(0, 1, k1), (1, 0, k2)], None))
                flat.append(("f2", 2, ["flat", nk], [(0, 1, k1), (0, 0, k2)], None))
                flat.append(("f2", 2, [nk, "flat"], [(0, 1, k1), (1, 0, k2)], [1, 0]))
    for k1 in EDGE_KINDS:
        flat.append(("c1", 1, ["constrained"], [(0, 0, k1)], None))
        for nk in NODE_KINDS:
            flat.append(("c2", 2, ["constrained", nk], [(0, 1, k1), (1, 0, "req")], None))
            flat.append(("c2", 2, [nk, "constrained"], [(0, 1, "req"), (1, 0, k1)], [1, 0]))
    for nk in NODE_KINDS:
        for k1 in ("array32", "array1"):
            flat.append(("x1", 1, [nk], [(0, 0, k1)], None))
            for k2 in EDGE_KINDS_X:
                flat.append(("x2", 2, [nk, "struct"], [(0, 1, k1), (1, 0, k2)], None))
                flat.append(("x2", 2, ["struct", nk], [(0, 1, k2), (1, 0, k1)], [1, 0]))
    out += flat
    if tier == "thorough":
        out += full2 + full3
        exhaustive = True
    else:
        out += r.sample(full2, 2500) + r.sample(full3, 1500)
        exhaustive = False
    # random graphs n <= 8, random definition order
    nrand = 400 if tier == "quick" else 30000
    for i in range(nrand):
        rr = util.rng(seed, PROP, "rand", i)
        n = rr.randrange(2, 9)
        nks = [rr.choice(NODE_KINDS_X if i % 2 else NODE_KINDS) for _ in range(n)]
        m = rr.randrange(n, 2 * n + 2)
        edges = [(rr.randrange(n), rr.randrange(n), rr.choice(EDGE_KINDS_X if i % 4 == 1 else EDGE_KINDS)) for _ in range(m)]
        if i % 3 == 0:
            # forward edges only: no cycle at all, so no Box may appear
            edges = [(min(a, b), max(a, b), k) for a, b, k in edges if a != b]
        order = list(range(n))
        rr.shuffle(order)
        out.append(("rand", n, nks, edges, order))
    return out, exhaustive


def run(tier, seed, replay=None):
    rep = util.Report(PROP, tier, seed)
    rep.rule = ("reference graphs over definitions: n=1 all subsets of 7 edge kinds as self loops x 3 node kinds; n=2 every "
                "assignment of {none + 7 kinds} to the 4 ordered pairs x 9 node-kind pairs; n=3 every assignment of "
                "{none, required, optional} to the 9 ordered pairs x {struct, enum}^3 (quick: seeded samples of the n=2 and "
                "n=3 spaces; thorough: complete); random graphs n<=8 with permuted definition order. Non-trivial: the "
                "schema has a by-value cycle. Distinct by (n, node kinds, edge list).")
    rep.assumptions = [
        "containment graph read through Type::details(); Box, Vec, Set and Map edges are heap indirections",
        "second observer on a sample: rustc (E0072) and a round trip of recursive values through the compiled types",
    ]
    graphs, exhaustive = enumerate_graphs(tier, seed)
    rep.exhaustive = exhaustive
    rep.notes["exhaustive_spaces"] = "n=1 always complete; n=2 and n=3 complete in thorough tier"
    cases, meta = [], {}
    for idx, (label, n, nks, edges, order) in enumerate(graphs):
        doc, eff = build_doc(n, nks, edges, order)
        cid = "%s_%06d" % (label, idx)
        cases.append({"id": cid, "settings": {}, "history": [{"op": "root", "schema": doc}],
                      "opts": {"facts": False, "code": False, "has_impl": False, "hooks": True}})
        meta[cid] = {"n": n, "kinds": nks, "edges": edges, "order": order, "cyclic": has_cycle(n, eff), "doc": doc}
    if replay:
        data = json.load(open(replay))
        c = (data.get("first") or data)["case"]
        cases = [c]
        doc = c["history"][0]["schema"]
        meta = {c["id"]: {"n": len(doc["definitions"]), "kinds": None, "edges": None, "order": None,
                          "cyclic": None, "doc": doc}}
    run_ = pipeline.Run(PROP, "main")
    results = run_.vgen(cases, shards=util.NCPU, timeout=3000)
    hooks_box = 0
    compile_ids = []
    for cid, res in results.items():
        m = meta[cid]
        st = vgen.ingest_status(res)
        rep.evaluations += 1
        case = {"id": cid, "settings": {}, "history": [{"op": "root", "schema": m["doc"]}]}
        if st != "ok":
            rep.count("rejected_" + st)
            if st in ("abort",):
                rep.violation("ingest_abort", "abort", {"graph": m["edges"], "kinds": m["kinds"],
                                                         "info": res.get("abort")}, case=case)
            continue
        if res.get("types") is None:
            rep.count("types_dump_failed")
            continue
        cyc = containment_cycle(res["types"])
        nbox = sum(1 for t in res["types"] if t["kind"] == "box")
        hb = sum(1 for h in res.get("hooks") or [] if h.get("k") == "box")
        hooks_box += hb
        if cyc:
            names = [next(t["name"] for t in res["types"] if t["id"] == i) for i in cyc]
            rep.violation("containment_cycle", "kinds=%s" % ",".join(sorted(set(m["kinds"] or []))),
                          {"cycle": names, "graph": m["edges"], "kinds": m["kinds"], "order": m["order"]}, case=case)
            continue
        if m["cyclic"] is False and (nbox or hb):
            rep.violation("box_without_cycle", "kinds=%s" % ",".join(sorted(set(m["kinds"] or []))),
                          {"boxes": nbox, "graph": m["edges"], "kinds": m["kinds"], "order": m["order"]}, case=case)
            continue
        if res.get("render") != "ok":
            rep.violation("render_panic", common.site_of(res.get("render_msg")), {"graph": m["edges"]}, case=case)
            continue
        rep.count("acyclic_output")
        if m["cyclic"]:
            rep.count("schema_cyclic")
            rep.nontrivial.add((m["n"], tuple(m["kinds"] or []), tuple(m["edges"] or [])))
            if m["kinds"] and flatten_only_cycle(m["n"], m["kinds"], m["edges"]):
                rep.count("flatten_only_cycle_not_in_compile_sample")   # KF-C07-1, observed on the pinned input below
            else:
                compile_ids.append(cid)
        else:
            rep.count("schema_acyclic_no_box")
        if len(rep.samples) < 4 and m["cyclic"]:
            rep.sample({"kinds": m["kinds"], "edges": m["edges"], "boxes": nbox})
    # second observer on a sample of cyclic graphs: compile + round trip
    r = util.rng(seed, PROP, "sample")
    k = 60 if tier == "quick" else 400
    sample = sorted(r.sample(compile_ids, min(k, len(compile_ids))))
    if sample:
        sub_cases = [dict(c, opts={"has_impl": False}) for c in cases if c["id"] in set(sample)]
        run2 = pipeline.Run(PROP, "compile")
        res2 = run2.vgen(sub_cases)
        try:
            run2.compile(want_builder=False, want_str=False, want_default=False)
        except Exception as e:
            # KF-C07-1 surfaces as a span-less E0275: if a flattened cycle slipped past the filter, the compiled
            # sample is rebuilt without graphs that have flattened nodes (they stay in the containment check)
            if "E0275" not in str(e) or "FlatMapSerialize" not in str(e):
                raise
            rep.count("compile_sample_rebuilt_without_flat_nodes")
            sample = [c for c in sample if "flat" not in (meta[c]["kinds"] or [])]
            sub_cases = [dict(c, opts={"has_impl": False}) for c in cases if c["id"] in set(sample)]
            run2 = pipeline.Run(PROP, "compile2")
            res2 = run2.vgen(sub_cases)
            run2.compile(want_builder=False, want_str=False, want_default=False)
        for cid in sample:
            for d in run2.s2.diags.get(cid, []):
                if d.get("file") == "gen" and d.get("code") == "E0072":
                    rep.violation("rustc", "%s" % d.get("code"), {"graph": meta[cid]["edges"], "kinds": meta[cid]["kinds"],
                                                                 "msg": d.get("rendered", "")[:600]},
                                  case={"id": cid, "settings": {}, "history": [{"op": "root", "schema": meta[cid]["doc"]}]})
                    break
        probes = []
        for cid in sample:
            if cid in run2.s2.removed:
                continue
            if "flat" in (meta[cid]["kinds"] or []):
                # a non-exclusive anyOf is outside the faithful fragment (its flattened struct cannot hold the
                # non-object alternatives): such graphs are judged on containment and compilation only
                rep.count("flat_graph_compiled_no_roundtrip")
                continue
            doc = meta[cid]["doc"]
            orc = oracle.Oracle(doc)
            res = res2[cid]
            for dname, dschema in doc["definitions"].items():
                tname = norm(((res.get("defs") or {}).get(dname) or {}).get("name") or "")
                if tname not in run2.info.get(cid, {}):
                    continue
                ig = instgen.InstGen(util.rng(seed, PROP, "inst", cid, dname), doc["definitions"], hard_depth=14)
                for v in ig.instances(dschema, 4):
                    try:
                        ok = orc.valid(v, dname)
                    except Exception:   # ill-founded schemas (N = anyOf[N, null]) recurse forever in the oracle
                        rep.count("oracle_error")
                        continue
                    if ok:
                        probes.append({"pid": len(probes), "case": cid, "ty": tname, "op": "de",
                                       "input": instgen.to_text(v), "depth": depth(v)})
        outs, ab, to, sk = run2.probe([{k_: v for k_, v in p.items() if k_ != "depth"} for p in probes])
        for p in probes:
            o = outs.get(p["pid"])
            if o is None:
                continue
            rep.count("roundtrip_probes")
            if p["depth"] >= 3:
                rep.count("roundtrip_depth3plus")
            if not o.get("ok") or not o.get("w2_same", False):
                rep.violation("recursive_value_roundtrip", common.site_of(o.get("err") or o.get("panic") or "w2"),
                              {"input": p["input"], "out": o, "graph": meta[p["case"]]["edges"]},
                              case={"id": p["case"], "settings": {}, "history": [{"op": "root", "schema": meta[p["case"]]["doc"]}]})
        rep.notes["compiled_sample"] = {"graphs": len(sample), "removed": len(run2.s2.removed)}
    known_flatten(rep)
    rep.notes["hook_box_events"] = hooks_box
    if hooks_box == 0:
        rep.inconclusive.append("cycle-breaking hook never fired")
    findings = util.Findings(PROP, common.PREDS)
    return rep.finish(findings, min_nontrivial=200)


def flatten_only_cycle(n, kinds, edges):
    """A cycle made of flattened members only (flat node -> direct reference)."""
    outdeg = {}
    for (a, b, k) in edges:
        outdeg[a] = outdeg.get(a, 0) + 1
    eff = [(a, b) for (a, b, k) in edges
           if (kinds[a] == "flat" and k in ("req", "opt")) or
           # an alias (transparent newtype, possibly over Option) hands the flattening serializer through
           (kinds[a] == "alias" and outdeg[a] == 1 and k in ("req", "opt", "nullable"))]
    return has_cycle(n, eff)


def known_flatten(rep):
    """Pinned input of KF-C07-1: a type that is recursive through flattened members only. The module type-checks, but
    serde's FlatMapSerializer nests once per level, so `Serialize` cannot be instantiated for any concrete serializer
    (rustc E0275). Compiled on its own because the error carries no span."""
    import os
    from vlib import stage2
    path = os.path.join(util.VERIF, "corpus", PROP, "flatten_self.json")
    doc = json.load(open(path))
    case = {"id": "k_flatten_self", "settings": {}, "history": [{"op": "root", "schema": doc}], "opts": {"has_impl": False}}
    run3 = pipeline.Run(PROP, "kf")
    res = run3.vgen([case])
    if vgen.ingest_status(res["k_flatten_self"]) != "ok":
        rep.count("kf_flatten_rejected")
        return
    try:
        run3.compile(want_builder=False, want_str=False, want_default=False)
    except stage2.Stage2Error as e:
        msg = str(e)
        if "E0275" in msg and "FlatMapSerialize" in msg:
            rep.violation("recursive_flatten_not_serializable", "E0275", {"msg": msg[:400]}, case=case)
        else:
            rep.inconclusive.append("pinned flatten_self input: unexpected build failure: " + msg[:200])
        return
    rep.count("kf_flatten_compiles")


def depth(v):
    if isinstance(v, dict):
        return 1 + max([depth(x) for x in v.values()] or [0])
    if isinstance(v, list):
        return 1 + max([depth(x) for x in v] or [0])
    return 0

"""C18 — the builder interface constructs exactly the valid structs."""
import itertools
import json

from vlib import instgen, oracle, pipeline, util, vgen
from vlib.driver import norm, type_facts
from . import common

PROP = "C18"


def wire_names(item):
    """field ident -> JSON member name (None for the flattened member)."""
    out = {}
    for f in item.get("fields") or []:
        sd = f.get("serde") or {}
        if sd.get("flatten"):
            out[f["ident"]] = None
        else:
            out[f["ident"]] = sd.get("rename") if isinstance(sd.get("rename"), str) else f["ident"]
    return out


def run(tier, seed, replay=None):
    rep = util.Report(PROP, tier, seed)
    rep.rule = ("struct definitions from grammar F (+defaults, typed additionalProperties, constrained members) with builders on; "
                "for each struct every subset (<=6 members; 64 random subsets otherwise) of the members of valid instances is set "
                "through the builder and compared with (i) the schema's required set and (ii) the type's own deserialiser on the "
                "same members; bad setter values; struct->builder->struct. Non-trivial: struct has >=2 properties and a required, "
                "default or flattened member; distinct by (schema shape, subset).")
    rep.assumptions = common.ORACLE_ASSUMPTIONS + [
        "a build outcome is a violation only if it disagrees with BOTH references (schema-required set and serde on the same "
        "members) or if the references agree with each other and the builder does not",
        "setter values are produced by deserialising the member's JSON into the field type the API reports",
    ]
    n_docs = 120 if tier == "quick" else 3000
    docs = common.gen_docs(PROP, seed, n_docs, profile="F", replay=replay, defaults=0.6)
    # non-exclusive anyOf of objects: typify emits a struct of flattened Option members (all defaulted)
    for i in range(max(4, n_docs // 12)):
        r = util.rng(seed, PROP, "anyof", i)
        names = r.sample(["a", "b", "c", "dd", "e_e"], 4)
        b1 = {"type": "object", "properties": {names[0]: {"type": "string"}, names[1]: {"type": "integer"}}}
        b2 = {"type": "object", "properties": {names[1]: {"type": "integer"}, names[2]: {"type": "boolean"}}}
        if r.random() < 0.5:
            b1["required"] = [names[0]]
        third = []
        if i % 3 == 1:
            third = [{"type": "object", "properties": {names[3]: {"type": "string"}}}]
        elif i % 3 == 2:
            third = [{"type": ["object", "null"], "properties": {names[3]: {"type": "string"}}}]   # already nullable
            if i % 2:
                third, b2 = [], dict(b2, type=["object", "null"])   # ... as one of two branches
        doc = {"definitions": {"Contact": {"anyOf": [b1, b2] + third}}}
        docs.append(("y%04d" % i, doc, ["anyof_overlap"]))
    cases = [{"id": did, "settings": {"struct_builder": True}, "history": [{"op": "root", "schema": doc}]}
             for did, doc, used in docs]
    docmap = {did: (doc, used) for did, doc, used in docs}
    run_ = pipeline.Run(PROP, "main")
    results = run_.vgen(cases)
    common.count_ingest(rep, results)
    ok = {cid for cid, res in results.items() if res.get("ingest_ok") and res.get("syn") == "ok"}
    if not ok:
        rep.inconclusive.append("nothing ingested")
        return rep.finish(util.Findings(PROP, {}))
    run_.compile(ids=ok, want_builder=True, want_str=False, want_default=False)
    probes = []

    def add(p):
        p["pid"] = len(probes)
        probes.append(p)

    for cid in sorted(ok):
        if cid in run_.s2.removed:
            rep.count("compile_failed_" + run_.s2.removed[cid])
            gd = [d for d in run_.s2.diags.get(cid, []) if d.get("file") == "gen"]
            if gd:
                # the emitted builder / default code is a template over each struct's members: it has to compile
                msg = gd[0].get("rendered") or ""
                # KF-C18-2 (= KF-C06-2 where the member's type has no Default): a member absent from a rendered default
                # value is written `name: Default::default()`
                cause = "absent_member_of_rendered_default_has_no_default_impl" if all(
                    d.get("code") == "E0277" and "Default::default()," in (d.get("rendered") or "") and
                    "the trait `Default` is not implemented" in (d.get("rendered") or "") for d in gd) else None
                rep.violation("generated_code_does_not_compile", str(gd[0].get("code")),
                              {"msg": msg[:700], "n_errors": len(gd), "cause": cause}, cause=cause,
                              case={"id": cid, "settings": {"struct_builder": True}}, doc=docmap[cid][0])
            continue
        res = results[cid]
        doc, used = docmap[cid]
        defs = doc["definitions"]
        orc = oracle.Oracle(doc)
        info = run_.info.get(cid, {})
        tf = type_facts(res)
        # targets: the definitions, and the structs generated for INLINE object schemas of their members (only those
        # keep a whole-type `default` of their own)
        types_by_id = {t["id"]: t for t in res.get("types") or []}
        targets = []
        for dname, dschema in defs.items():
            dinfo = (res.get("defs") or {}).get(dname) or {}
            targets.append((dname, norm(dinfo.get("name") or ""), dschema, (lambda v, dn=dname: orc.valid_or_none(v, dn))))
            dt = types_by_id.get(dinfo.get("id"))
            if dt and dt["kind"] == "struct" and isinstance(dschema, dict) and isinstance(dschema.get("properties"), dict):
                for pr_ in dt.get("props") or []:
                    ps = dschema["properties"].get(pr_["name"])
                    if not (isinstance(ps, dict) and ps.get("type") == "object" and isinstance(ps.get("properties"), dict)):
                        continue
                    tt = types_by_id.get(pr_["type_id"])
                    if tt and tt["kind"] == "option":
                        tt = types_by_id.get(tt["of"])
                    if tt and tt["kind"] == "struct":
                        def _valid(v, ps=ps):
                            try:
                                return oracle.valid_against(ps, v, defs)
                            except Exception:
                                return None
                        targets.append(("%s.%s" % (dname, pr_["name"]), norm(tt["name"]), ps, _valid))
        for dname, tname, dschema, is_valid in targets:
            if tname not in info or "build" not in info[tname]:
                continue
            item = tf.get(tname)
            if not item or item.get("shape") not in ("named", "unit"):
                continue
            wn = wire_names(item)
            inv = {v: k for k, v in wn.items() if v is not None}
            flat = [k for k, v in wn.items() if v is None]
            r = util.rng(seed, PROP, "inst", cid, dname)
            ig = instgen.InstGen(r, defs, undeclared=False)
            insts = [v for v in ig.instances(dschema, 5) if isinstance(v, dict) and pipeline.within_i64(v)]
            insts = [v for v in insts if is_valid(v)]
            required = set()
            schema_reference = True
            rs = dschema
            if isinstance(rs, dict) and rs.get("type") == "object":
                required = set(rs.get("required", []))
            elif isinstance(rs, dict) and isinstance(rs.get("anyOf"), list):
                schema_reference = False   # flattened union struct: serde on the same members is the only reference
                insts = [{}] + insts
            else:
                continue   # allOf etc.: required set of the merged schema is not read from the document here
            for v in insts[:3]:
                declared = [k for k in v if k in inv]
                extra = {k: x for k, x in v.items() if k not in inv}
                members = declared + (["<extra>"] if flat and extra else [])
                if not schema_reference:
                    members = []   # flattened union struct: only the 'nothing set' build has an unambiguous reference
                if len(members) <= 6:
                    subsets = [list(c) for n_ in range(len(members) + 1) for c in itertools.combinations(members, n_)]
                else:
                    subsets = [[m for m in members if r.random() < 0.5] for _ in range(64)] + [members, []]
                if tier == "quick" and len(subsets) > 24:
                    subsets = r.sample(subsets, 22) + [members, []]
                for sub in subsets:
                    setmap, obj = {}, {}
                    for m in sub:
                        if m == "<extra>":
                            setmap[flat[0]] = extra
                            obj.update(extra)
                        else:
                            setmap[inv[m]] = v[m]
                            obj[m] = v[m]
                    meta = {"def": dname, "schema": dschema, "subset": sorted(sub), "required": sorted(required),
                            "schema_reference": schema_reference,
                            "obj": obj, "type": tname, "doc": doc, "used": used, "flat": bool(flat)}
                    add({"case": cid, "ty": tname, "op": "build", "input": {"set": setmap}, "meta": dict(meta, kind="build")})
                    add({"case": cid, "ty": tname, "op": "de", "input": json.dumps(obj), "meta": dict(meta, kind="ref_de")})
                add({"case": cid, "ty": tname, "op": "b2s", "input": json.dumps(v),
                     "meta": {"kind": "b2s", "def": dname, "schema": dschema, "inst": v, "type": tname, "doc": doc}})
                # bad setter values
                for op in sorted(info[tname]):
                    if op.startswith("bad_str:") or op.startswith("bad_int:"):
                        prop = op.split(":", 1)[1]
                        others = {inv[m]: v[m] for m in declared if inv[m] != prop}
                        vals = (["", "x" * 40, "é" * 3, "NOT-A-MEMBER"] if op.startswith("bad_str") else
                                ["-1", "256", "65536", "4294967296", "9223372036854775808", "-129", "-32769", "-2147483649"])
                        for val in vals:
                            add({"case": cid, "ty": tname, "op": op, "input": {"set": others, "value": val},
                                 "meta": {"kind": "bad", "def": dname, "schema": dschema, "prop": prop, "value": val,
                                          "type": tname, "doc": doc, "op": op}})
    outs, ab, to, sk = run_.probe([{k: v for k, v in p.items() if k != "meta"} for p in probes])
    # pair build / ref_de
    i = 0
    while i < len(probes):
        p = probes[i]
        m = p["meta"]
        case = {"id": p["case"], "settings": {"struct_builder": True}}
        o = outs.get(p["pid"])
        if m["kind"] == "build":
            q = probes[i + 1]
            oref = outs.get(q["pid"])
            i += 2
            if o is None or oref is None or "harness_error" in o or "harness_error" in oref:
                continue
            rep.evaluations += 1
            kw = dict(case=case, doc=m["doc"], schema=m["schema"])
            det = {"def": m["def"], "subset": m["subset"], "required": m["required"], "build": o, "de": oref,
                   "schema": m["schema"]}
            if o.get("panic"):
                rep.violation("builder_panics", common.site_of(o["panic"]), det, **kw)
                continue
            if o.get("input_err"):
                rep.count("setter_value_not_deserialisable")   # the member's value does not fit the field type (C02's concern)
                continue
            b_ok = bool((o.get("r") or {}).get("ok"))
            d_ok = bool(oref.get("ok"))
            s_ok = (set(m["required"]) <= set(m["subset"])) if m.get("schema_reference", True) else d_ok
            if b_ok != s_ok and b_ok != d_ok:
                site = "build=%s schema=%s serde=%s%s" % (b_ok, s_ok, d_ok, " flat" if m["flat"] else "")
                err_ = (o.get("r") or {}).get("err") or ""
                cause = None
                if m["flat"] and "<extra>" not in m["subset"] and not b_ok and s_ok and d_ok and \
                        err_.startswith("no value supplied for ") and \
                        err_.split()[-1] in flat_map_idents(m, results[p["case"]]):
                    cause = "flattened_extra_required_by_builder"   # only the typed additionalProperties MAP member
                rep.violation("builder_outcome", site, dict(det, err=err_), cause=cause, **kw)
                continue
            if b_ok and s_ok and not d_ok and m.get("schema_reference", True):
                # every member the schema requires is set and the builder builds it, but the type's own deserialiser
                # refuses the very same members: the defaults the two sides apply cannot be "the same values"
                rep.violation("serde_rejects_what_builder_builds", common.site_of(oref.get("err") or ""),
                              dict(det, err=oref.get("err")), **kw)
                continue
            if b_ok and d_ok:
                bv = json.loads(((o["r"].get("val") or {}).get("text")) or "null")
                dv = json.loads(oref.get("w") or "null")
                if bv != dv:
                    rep.violation("builder_value_differs", "-", dict(det, built=bv, deserialised=dv), **kw)
                    continue
            if not b_ok:
                err = (o.get("r") or {}).get("err") or ""
                missing = sorted(set(m["required"]) - set(m["subset"]))
                rep.count("build_refused")
                if missing and not any(inv_name in err for inv_name in missing_idents(missing, m, results[p["case"]])):
                    rep.violation("error_does_not_name_property", "-", dict(det, err=err, missing=missing), **kw)
                    continue
            else:
                rep.count("build_ok")
            if len(m["required"]) and len(json.dumps(m["schema"])) > 80:
                rep.nontrivial.add((pipeline.schema_shape(m["schema"]), tuple(m["subset"])))
            if len(rep.samples) < 4 and b_ok and len(m["subset"]) >= 2:
                rep.sample({"def": m["def"], "set": m["subset"], "required": m["required"], "built": (o["r"].get("val") or {}).get("text")})
            continue
        i += 1
        if o is None or "harness_error" in o:
            continue
        rep.evaluations += 1
        if m["kind"] == "b2s":
            if o.get("panic"):
                rep.violation("b2s_panics", common.site_of(o["panic"]), {"inst": m["inst"]}, case=case, doc=m["doc"])
            elif not o.get("de_ok"):
                rep.count("b2s_input_rejected")
            else:
                y = o.get("y") or {}
                if not y.get("ok") or (y.get("val") or {}).get("text") != (o.get("x") or {}).get("text"):
                    xv, yv = (o.get("x") or {}).get("text"), (y.get("val") or {}).get("text")
                    same = xv is not None and yv is not None and json.loads(xv) == json.loads(yv)
                    if not same:
                        rep.violation("struct_builder_struct_not_identity", "-", {"inst": m["inst"], "out": o},
                                      case=case, doc=m["doc"], schema=m["schema"])
                        continue
                rep.count("b2s_identity")
        elif m["kind"] == "bad":
            if o.get("panic"):
                rep.violation("bad_setter_panics", common.site_of(o["panic"]), {"prop": m["prop"], "value": m["value"]},
                              case=case, doc=m["doc"])
            elif o.get("ok"):
                rep.count("bad_value_was_actually_convertible")
            else:
                err = o.get("err") or ""
                if err.startswith("no value supplied for ") and err.split()[-1] != m["prop"]:
                    # the value converted fine; the build failed because some OTHER member is unset: nothing to judge
                    rep.count("bad_value_convertible_other_member_missing")
                elif m["prop"] not in err:
                    rep.violation("setter_error_does_not_name_property", m["op"].split(":")[0],
                                  {"prop": m["prop"], "value": m["value"], "err": err}, case=case, doc=m["doc"],
                                  schema=m["schema"])
                else:
                    rep.count("bad_setter_named")
                    rep.nontrivial.add(("bad", m["prop"], m["value"]))
    rep.notes["stage2"] = {"cases": len(run_.s2.order), "removed": len(run_.s2.removed)}
    return rep.finish(util.Findings(PROP, dict(common.PREDS)), min_nontrivial=30)


def flat_map_idents(m, res):
    """Flattened members that are maps (the `extra` member of typed additionalProperties), not Option<struct>."""
    item = type_facts(res).get(m["type"]) or {}
    out = []
    for f in item.get("fields") or []:
        if (f.get("serde") or {}).get("flatten") and not norm(f.get("ty") or "").startswith("::std::option::Option<"):
            out.append(f["ident"])
    return out


def flat_idents(m, res):
    item = type_facts(res).get(m["type"]) or {}
    return [k for k, v in wire_names(item).items() if v is None]


def missing_idents(missing, m, res):
    """Field identifiers of the missing JSON members."""
    tf = type_facts(res)
    item = tf.get(m["type"]) or {}
    wn = wire_names(item)
    inv = {v: k for k, v in wn.items() if v is not None}
    return [inv.get(x, x) for x in missing]

"""C10 — built-in type selection can represent every admitted value."""
import itertools
import json

from vlib import oracle, pipeline, util, vgen
from . import common

PROP = "C10"

I = oracle.RUST_INT_RANGE
LO, HI = -2**63, 2**64 - 1   # JSON integers serde_json can carry

FORMATS = ["int8", "uint8", "int16", "uint16", "int32", "uint32", "int64", "uint64", "int", "uint",
           "frob", None]


def lattice(thin):
    pts = set()
    for t in ("i8", "u8", "i16", "u16", "i32", "u32", "i64", "u64"):
        lo, hi = I[t]
        for b in (lo, hi):
            pts.update([b - 1, b, b + 1])
    pts.update([0, 1, -1, 2, -2, 10, 100, -100, 2**53, -2**53, 2**40])
    pts = sorted(pts)
    if thin:
        keep = {-2**63, -2**31 - 1, -2**31, -129, -128, -1, 0, 1, 2, 127, 128, 255, 256, 65535, 2**31 - 1,
                2**32 - 1, 2**32, 2**63 - 1, 2**64 - 1}
        pts = [p for p in pts if p in keep]
    return pts


def admitted(n, sch):
    fmt = sch.get("format")
    if fmt in oracle.INT_FORMATS:
        lo, hi = oracle.INT_FORMATS[fmt]
        if not lo <= n <= hi:
            return False
    if "minimum" in sch and n < sch["minimum"]:
        return False
    if "maximum" in sch and n > sch["maximum"]:
        return False
    if "exclusiveMinimum" in sch and n <= sch["exclusiveMinimum"]:
        return False
    if "exclusiveMaximum" in sch and n >= sch["exclusiveMaximum"]:
        return False
    if "multipleOf" in sch and n % sch["multipleOf"] != 0:
        return False
    return True


def representable(chosen, n):
    if chosen not in I:
        return None
    lo, hi = I[chosen]
    return lo <= n <= hi


def schemas(tier, seed):
    """Exhaustive (format x min-kind x max-kind x bounds) over the lattice."""
    thin = tier == "quick"
    pts = lattice(thin)
    bounds = [None] + pts
    out = []
    for fmt in FORMATS:
        for mn in bounds:
            for mx in bounds:
                if mn is not None and mx is not None and mx < mn - 2:
                    continue  # (almost) empty ranges add nothing
                for emn, emx in ((False, False), (True, False), (False, True), (True, True)):
                    if (emn and mn is None) or (emx and mx is None):
                        continue
                    s = {"type": "integer"}
                    if fmt:
                        s["format"] = fmt
                    if mn is not None:
                        s["exclusiveMinimum" if emn else "minimum"] = mn
                    if mx is not None:
                        s["exclusiveMaximum" if emx else "maximum"] = mx
                    out.append(s)
    # both an inclusive and an exclusive bound on the same side (thin lattice, seeded sample in the quick tier)
    thin_pts = lattice(True)
    both = []
    for fmt in FORMATS:
        for a in thin_pts:
            for b in thin_pts:
                for other in (None, 127, 2**32):
                    s1 = {"type": "integer", "minimum": a, "exclusiveMinimum": b}
                    s2 = {"type": "integer", "maximum": a, "exclusiveMaximum": b}
                    if fmt:
                        s1["format"] = fmt
                        s2["format"] = fmt
                    if other is not None:
                        s1["maximum"] = other
                        s2["minimum"] = -other
                    both += [s1, s2]
    if tier == "quick":
        both = util.rng(seed, PROP, "both").sample(both, 4000)
    out += both
    return out, pts


def run(tier, seed, replay=None):
    rep = util.Report(PROP, tier, seed)
    rep.rule = ("integer schemas: exhaustive product of 12 format settings x (minimum|exclusiveMinimum|absent) x "
                "(maximum|exclusiveMaximum|absent) over the boundary lattice; each schema probed with every lattice "
                "integer in [i64::MIN, u64::MAX]; plus multipleOf and default sub-samples and the string/float format "
                "tables. Non-trivial: schema has >=1 bound or a format; distinct by (format, bound kinds, bounds).")
    rep.assumptions = [
        "the chosen type is read through the public API (TypeDetails::Builtin of the definition's inner type)",
        "oracle: exact integer arithmetic in python on the document text (not f64)",
        "i64 is the documented fallback and is accepted for every schema; any other choice must hold every "
        "admitted lattice value within [i64::MIN, u64::MAX]",
        "bounds written in the document are exact integers; |bound| > 2^53 only at the i64/u64 limits",
        "default-vs-bound judgements are skipped when both the default and a bound exceed 2^53 in magnitude "
        "(schemars represents bounds as f64, the two are indistinguishable there)",
    ]
    schs, pts = schemas(tier, seed)
    rep.exhaustive = True
    probe_pts = [p for p in pts if LO <= p <= HI]
    # sub-samples: multipleOf and defaults
    r = util.rng(seed, PROP, "sub")
    extra = []
    for s in r.sample(schs, max(50, len(schs) // 10)):
        s2 = dict(s)
        s2["multipleOf"] = r.choice([1, 2])
        extra.append(s2)
    schs_all = schs + extra
    # batch into documents of definitions
    B = 400
    cases, index = [], {}
    for bi in range(0, len(schs_all), B):
        defs = {}
        for k, s in enumerate(schs_all[bi:bi + B]):
            defs["D%d" % k] = s
            index[("b%05d" % (bi // B), "D%d" % k)] = s
        cases.append({"id": "b%05d" % (bi // B), "settings": {},
                      "history": [{"op": "root", "schema": {"definitions": defs}}],
                      "opts": {"facts": False, "code": False, "has_impl": False, "hooks": bi == 0}})
    # defaults: one case each (an Err ends a history)
    dcases = {}
    dsample = r.sample(schs, 120 if tier == "quick" else 1500)
    for k, s in enumerate(dsample):
        cand = [p for p in probe_pts]
        d = r.choice(cand)
        s2 = dict(s)
        s2["default"] = d
        cid = "d%05d" % k
        dcases[cid] = (s2, d)
        cases.append({"id": cid, "settings": {}, "history": [{"op": "root", "schema": {"definitions": {"D": s2}}}],
                      "opts": {"facts": False, "code": False, "has_impl": False, "hooks": False}})
    # pinned input of KF-C10-1 (and its mirror images)
    k = len(dsample)
    for s2 in ({"type": "integer", "format": "int64", "default": 9223372036854775808},
               {"type": "integer", "format": "uint64", "default": 18446744073709551616},
               {"type": "integer", "format": "int64", "default": 9223372036854775807}):
        cid = "d%05d" % k
        k += 1
        dcases[cid] = (s2, s2["default"])
        cases.append({"id": cid, "settings": {}, "history": [{"op": "root", "schema": {"definitions": {"D": s2}}}],
                      "opts": {"facts": False, "code": False, "has_impl": False, "hooks": False}})
    for s2 in ({"type": "integer", "format": "uint64", "minimum": 0, "maximum": 1000, "default": 10000000000000000000},
               {"type": "integer", "format": "uint64", "maximum": 4611686018427387904, "default": 18446744073709551615},
               {"type": "integer", "format": "uint64", "minimum": 0, "maximum": 1000, "default": 1000},
               {"type": "integer", "format": "uint64", "default": 18446744073709551615}):
        cid = "d%05d" % k
        k += 1
        dcases[cid] = (s2, s2["default"])
        cases.append({"id": cid, "settings": {}, "history": [{"op": "root", "schema": {"definitions": {"D": s2}}}],
                      "opts": {"facts": False, "code": False, "has_impl": False, "hooks": False}})
    dsample = dsample + [None] * 7
    # directed: a recognised format whose fast path is left (multipleOf, or an explicit bound outside the format) with a
    # default beyond the format's range on the side that carries no explicit bound
    k = len(dsample)
    for fmt, (lo, hi) in oracle.INT_FORMATS.items():
        if abs(lo) > 2**53 or hi > 2**53:
            continue   # (bounds beyond 2^53 are not distinguishable in schemars' f64 representation)
        for s2 in ({"type": "integer", "format": fmt, "multipleOf": 1, "default": hi + 1},
                   {"type": "integer", "format": fmt, "multipleOf": 1, "default": lo - 1},
                   {"type": "integer", "format": fmt, "multipleOf": 1, "default": hi},
                   {"type": "integer", "format": fmt, "minimum": lo - 1000, "default": hi + 500},
                   {"type": "integer", "format": fmt, "maximum": hi + 1000, "default": lo - 7},
                   {"type": "integer", "format": fmt, "minimum": lo - 1000, "default": lo}):
            cid = "d%05d" % k
            k += 1
            dcases[cid] = (s2, s2["default"])
            cases.append({"id": cid, "settings": {}, "history": [{"op": "root", "schema": {"definitions": {"D": s2}}}],
                          "opts": {"facts": False, "code": False, "has_impl": False, "hooks": False}})
    # string / float format tables
    STR_TABLE = {"uuid": "::uuid::Uuid", "date": "::chrono::naive::NaiveDate",
                 "date-time": "::chrono::DateTime<::chrono::offset::Utc>", "ip": "::std::net::IpAddr",
                 "ipv4": "::std::net::Ipv4Addr", "ipv6": "::std::net::Ipv6Addr"}
    tdefs = {}
    for f in list(STR_TABLE) + ["email", "hostname", "uri", "frob", "time", "byte", "int64", "partial-date-time", "duration",
                                "regex", "json-pointer", "binary", "password", "iri", "uri-reference", "idn-hostname", "Date",
                                "DATE-TIME", "uuid4", "ipv4-network", "ip-address"]:
        tdefs["S%02d_%s" % (len(tdefs), f.replace("-", "_"))] = {"type": "string", "format": f}
    for f in ["float", "double", "frob", "int32", None]:
        tdefs["N_%s" % f] = {"type": "number", **({"format": f} if f else {})}
    cases.append({"id": "tables", "settings": {}, "history": [{"op": "root", "schema": {"definitions": tdefs}}],
                  "opts": {"facts": False, "code": False, "has_impl": False}})

    run_ = pipeline.Run(PROP, "main")
    results = run_.vgen(cases, shards=util.NCPU)
    hook_counts = {}
    n_checked = 0
    for cid, res in results.items():
        for lab in vgen.hook_labels(res):
            hook_counts[lab] = hook_counts.get(lab, 0) + 1
        if cid.startswith("b"):
            if vgen.ingest_status(res) != "ok":
                rep.inconclusive.append("lattice batch %s not ingested: %s" % (cid, vgen.ingest_status(res)))
                continue
            types = {t["id"]: t for t in res["types"]}
            for dname, d in res["defs"].items():
                s = index[(cid, dname)]
                t = types[d["id"]]
                inner = types.get(t.get("inner")) if t["kind"] == "newtype" else t
                chosen = (inner or {}).get("builtin")
                rep.evaluations += 1
                if chosen is None or chosen not in I:
                    rep.violation("not_an_integer_type", str(chosen), {"schema": s, "chosen": chosen, "type": t})
                    continue
                rep.count("chosen_" + chosen.split("::")[-1])
                bad = [n for n in probe_pts if admitted(n, s) and not representable(chosen, n)]
                n_checked += len(probe_pts)
                if bad and chosen != "i64":
                    rep.violation("admitted_not_representable", "%s/%s" % (chosen, kinds(s)),
                                  {"schema": s, "chosen": chosen, "unrepresentable": bad[:6]}, schema=s, chosen=chosen)
                elif len(s) > 1:
                    rep.nontrivial.add(json.dumps(s, sort_keys=True))
                if len(rep.samples) < 5 and len(s) > 2:
                    rep.sample({"schema": s, "chosen": chosen})
        elif cid.startswith("d"):
            s2, dv = dcases[cid]
            st = vgen.ingest_status(res)
            rep.evaluations += 1
            base = {k: v for k, v in s2.items() if k != "default"}
            in_range = admitted(dv, {k: v for k, v in base.items() if k != "multipleOf"})
            empty = not any(admitted(n, base) for n in range(-300, 300)) and not any(admitted(n, base) for n in pts)
            big = abs(dv) > 2**53 and any(abs(base.get(k, 0)) > 2**53 for k in
                                           ("minimum", "maximum", "exclusiveMinimum", "exclusiveMaximum"))
            if big and not in_range:
                # schemars stores bounds as f64: a default and a bound that are both beyond 2^53 cannot be
                # told apart by any implementation on top of it
                rep.count("default_f64_indistinguishable")
            elif not in_range and st == "ok" and not empty:
                # KF-C10-1: typify compares the default with the limits as f64 (its own TODO says so): a default that is
                # one off a limit beyond 2^53 converts to the same f64 as the limit and passes
                lo_, hi_ = effective_range(base)
                cause = None
                if (hi_ is not None and dv > hi_ and float(dv) == float(hi_)) or (lo_ is not None and dv < lo_ and float(dv) == float(lo_)):
                    cause = "default_equals_limit_in_f64"
                rep.violation("bad_default_accepted", kinds(base), {"schema": s2, "default": dv, "cause": cause}, schema=s2, cause=cause)
            elif in_range and st in ("err", "panic"):
                # property only demands errors for out-of-range defaults; a valid default rejected is C06's concern
                rep.count("valid_default_rejected")
            else:
                rep.count("default_ok_" + ("in" if in_range else "out"))
                rep.nontrivial.add("d:" + json.dumps(s2, sort_keys=True))
        elif cid == "tables":
            if vgen.ingest_status(res) != "ok":
                rep.inconclusive.append("format tables not ingested")
                continue
            types = {t["id"]: t for t in res["types"]}
            for dname, d in res["defs"].items():
                t = types[d["id"]]
                inner = types.get(t.get("inner")) if t["kind"] == "newtype" else t
                got = inner.get("builtin") if inner["kind"] == "builtin" else inner["kind"]
                rep.evaluations += 1
                s = tdefs[dname]
                f = s.get("format")
                if s["type"] == "string":
                    want = STR_TABLE.get(f, "string")
                else:
                    want = "f32" if f == "float" else "f64"
                if (got or "").replace(" ", "") != want:
                    rep.violation("format_table", "%s:%s" % (s["type"], f), {"schema": s, "got": got, "want": want})
                else:
                    rep.nontrivial.add("t:" + dname)
    rep.notes["lattice_points"] = len(pts)
    rep.notes["integer_schemas"] = len(schs)
    rep.notes["probe_evaluations"] = n_checked
    rep.notes["hook_labels_seen"] = hook_counts
    if hook_counts.get("arm:integer", 0) == 0:
        rep.inconclusive.append("convert_integer hook never fired")
    findings = util.Findings(PROP, PREDS)
    return rep.finish(findings, min_nontrivial=500)


def effective_range(sch):
    """(lo, hi) of the integers a schema admits (None = unbounded), from the format and the explicit bounds."""
    lo = hi = None
    fmt = sch.get("format")
    if fmt in oracle.INT_FORMATS:
        lo, hi = oracle.INT_FORMATS[fmt]
    import math
    if "minimum" in sch:
        v = math.ceil(sch["minimum"]); lo = v if lo is None else max(lo, v)
    if "exclusiveMinimum" in sch:
        v = math.floor(sch["exclusiveMinimum"]) + 1; lo = v if lo is None else max(lo, v)
    if "maximum" in sch:
        v = math.floor(sch["maximum"]); hi = v if hi is None else min(hi, v)
    if "exclusiveMaximum" in sch:
        v = math.ceil(sch["exclusiveMaximum"]) - 1; hi = v if hi is None else min(hi, v)
    return lo, hi


def kinds(s):
    return "%s;%s;%s" % (s.get("format"), "emin" if "exclusiveMinimum" in s else ("min" if "minimum" in s else "-"),
                         "emax" if "exclusiveMaximum" in s else ("max" if "maximum" in s else "-"))


from . import common as _common
PREDS = dict(_common.PREDS)

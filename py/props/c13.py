"""C13 — x-rust-type substitution follows the documented crate/version policy."""
import itertools
import json

from vlib import pipeline, util, vgen
from vlib.driver import norm
from . import common

PROP = "C13"

# (requirement, version, matches) — taken from the Cargo reference ("Specifying
# dependencies": caret, tilde, wildcard, comparison, multiple) and the semver
# crate's prerelease rule; both sides of every operator.
TRIPLES = [
    ("1.2.3", "1.2.3", True), ("1.2.3", "1.9.0", True), ("1.2.3", "2.0.0", False), ("1.2.3", "1.2.2", False),
    ("^1.2", "1.2.0", True), ("^1.2", "1.1.9", False), ("^1.2", "2.0.0", False),
    ("0.2.3", "0.2.3", True), ("0.2.3", "0.2.9", True), ("0.2.3", "0.3.0", False), ("0.2.3", "0.2.2", False),
    ("0.0.3", "0.0.3", True), ("0.0.3", "0.0.4", False),
    ("0", "0.9.9", True), ("0", "1.0.0", False), ("1", "1.9.9", True), ("1", "2.0.0", False),
    ("~1.2.3", "1.2.3", True), ("~1.2.3", "1.2.9", True), ("~1.2.3", "1.3.0", False), ("~1.2.3", "1.2.2", False),
    ("~1.2", "1.2.0", True), ("~1.2", "1.3.0", False), ("~1", "1.9.0", True), ("~1", "2.0.0", False),
    ("*", "1.0.0", True), ("*", "0.0.1", True),
    ("1.*", "1.5.0", True), ("1.*", "2.0.0", False), ("1.2.*", "1.2.9", True), ("1.2.*", "1.3.0", False),
    (">=1.2.0", "1.2.0", True), (">=1.2.0", "1.1.9", False), (">=1.2.0", "3.0.0", True),
    (">1", "2.0.0", True), (">1", "1.9.9", False), ("<2", "1.9.9", True), ("<2", "2.0.0", False),
    ("=1.2.3", "1.2.3", True), ("=1.2.3", "1.2.4", False), ("<=1.2.3", "1.2.3", True), ("<=1.2.3", "1.2.4", False),
    (">=0.1.0, <1.0.0", "0.1.0", True), (">=0.1.0, <1.0.0", "0.9.9", True), (">=0.1.0, <1.0.0", "1.0.0", False),
    (">=0.1.0, <1.0.0", "0.0.9", False),
    (">=1.2, <1.5", "1.2.0", True), (">=1.2, <1.5", "1.4.9", True), (">=1.2, <1.5", "1.5.0", False),
    ("0.1.0", "0.1.1", True), ("0.2.2", "0.2.0", False),              # the README's own examples
    ("^1.0.0", "1.0.1-alpha.1", False), (">=1.0.0-alpha", "1.0.0-beta", True), (">=1.0.0-alpha", "1.0.0", True),
    ("1.0.0-alpha", "1.0.0-alpha", True), ("=1.0.0-alpha", "1.0.0", False),
]

PARAMS = {
    "p0": [],
    "p1i": [{"type": "string"}],
    "p1r": [{"$ref": "#/definitions/P1"}],
    "p2ir": [{"type": "boolean"}, {"$ref": "#/definitions/P1"}],
    "p2ri": [{"$ref": "#/definitions/P1"}, {"type": "integer", "format": "uint8"}],
}
PARAM_IDENTS = {
    "p0": [], "p1i": ["::std::string::String"], "p1r": ["P1"], "p2ir": ["bool", "P1"], "p2ri": ["P1", "u8"],
}
RENAMES = {"none": None, "plain": "newcrate", "hyph": "new-crate"}
CRATE = "ext-crate"
PATH = "ext_crate::m::Target"


PATHS = {None: PATH,
         # the crate identifier occurs again further down the path (whole segment, inside a segment, in the type name)
         "repeat": "ext_crate::ext_crate::my_ext_crate_util::Target_ext_crate"}


def make_cell(cfg, policy, req, rename, params, use, malformed, pathkind=None):
    xrt = {"crate": CRATE, "version": req, "path": PATHS[pathkind]}
    if PARAMS[params]:
        xrt["parameters"] = PARAMS[params]
    if malformed == "bad_req":
        xrt["version"] = "not a requirement"
    elif malformed == "path_no_sep":
        xrt["path"] = "Target"
    elif malformed == "path_wrong_crate":
        xrt["path"] = "other_crate::m::Target"
    elif malformed == "path_prefix_of_crate":
        xrt["path"] = "ext_crate_internal::m::Target"     # first segment merely STARTS WITH the crate's identifier
    elif malformed == "path_crate_is_prefix":
        xrt["path"] = "ext::m::Target"                    # ... or is a prefix of it
    elif malformed == "wrong_types":
        xrt["crate"] = 5
    elif malformed == "missing_version":
        del xrt["version"]
    target = {"type": "object", "properties": {"v": {"type": "integer"}}, "required": ["v"], "x-rust-type": xrt}
    defs = {"P1": {"type": "object", "properties": {"z": {"type": "boolean"}}}}
    if use == "inline":
        user = {"type": "object", "properties": {"f": target}, "required": ["f"]}
    elif use in SITES:
        defs["Other"] = target
        ref = {"$ref": "#/definitions/Other"}
        fs, req = SITES[use](ref)
        user = {"type": "object", "properties": {"f": fs}, "required": ["f"] if req else []}
    else:
        dname = xrt["path"].split("::")[-1] if use == "def_eq" and isinstance(xrt.get("path"), str) else \
            ("Target" if use == "def_eq" else "Other")
        defs[dname] = target
        user = {"type": "object", "properties": {"f": {"$ref": "#/definitions/" + dname}}, "required": ["f"]}
    defs["User"] = user
    settings = {"unknown_crates": policy}
    if cfg != "absent":
        c = {"name": CRATE, "version": cfg}
        if RENAMES[rename]:
            c["rename"] = RENAMES[rename]
        settings["crates"] = [c]
    return {"definitions": defs}, settings


# further use sites of the annotated definition ("wherever it is used"): (schema of member f, f required)
SITES = {
    "item": lambda ref: ({"type": "array", "items": ref}, True),
    "set_item": lambda ref: ({"type": "array", "items": ref, "uniqueItems": True}, True),
    "mapval": lambda ref: ({"type": "object", "additionalProperties": ref}, True),
    "optional": lambda ref: (ref, False),
    "nullable": lambda ref: ({"oneOf": [ref, {"type": "null"}]}, True),
    "variant": lambda ref: ({"oneOf": [ref, {"type": "integer"}]}, True),
    "tuple_item": lambda ref: ({"type": "array", "items": [ref, {"type": "boolean"}], "minItems": 2, "maxItems": 2}, True),
    "allof_single": lambda ref: ({"allOf": [ref]}, True),
}


def peel(ft, types, use):
    """The type standing for the annotated schema inside the type of member f."""
    for _ in range(4):
        k = ft["kind"]
        if k in ("option", "vec", "set", "box", "map"):
            ft = types[ft["of"]]
        elif k == "tuple" and use == "tuple_item":
            ft = types[ft["items"][0]]
        elif k == "enum" and use in ("variant", "nullable"):
            def plain(t):
                return t["kind"] == "builtin" and "::" not in (t.get("builtin") or "")
            v = next((v for v in ft["variants"] if v["kind"] == "tuple" and len(v["types"]) == 1 and
                      not plain(types[v["types"][0]])), None)
            if v is None:
                return ft
            ft = types[v["types"][0]]
        else:
            return ft
    return ft


def expected(cfg, policy, req_matches, malformed):
    """The documented decision (README 'Using types from other crates' / 'Version requirements')."""
    if malformed:
        return False
    if cfg == "absent":
        return policy == "Allow"
    if cfg == "*":
        return True
    if cfg == "!":
        return False
    return req_matches


def cells():
    out = []
    # configured version: every triple
    for (req, ver, m) in TRIPLES:
        for policy in ("Generate", "Allow", "Deny"):
            for rename in RENAMES:
                for params in PARAMS:
                    for use in ("def_eq", "def_diff", "inline"):
                        out.append(dict(cfg=ver, policy=policy, req=req, m=m, rename=rename, params=params,
                                        use=use, malformed=None))
    # absent / * / !
    for cfg in ("absent", "*", "!"):
        for policy in ("Generate", "Allow", "Deny"):
            for req in ("1.2.3", ">=0.1.0, <1.0.0", "*"):
                for rename in (RENAMES if cfg != "absent" else ["none"]):
                    for params in PARAMS:
                        for use in ("def_eq", "def_diff", "inline"):
                            out.append(dict(cfg=cfg, policy=policy, req=req, m=None, rename=rename, params=params,
                                            use=use, malformed=None))
    # further use sites, over a reduced configuration set (both decisions)
    for use in SITES:
        for cfg, policy, req, m in (("absent", "Allow", "1.2.3", None), ("absent", "Deny", "1.2.3", None),
                                    ("*", "Generate", "1.2.3", None), ("!", "Allow", "1.2.3", None),
                                    ("1.4.0", "Generate", "^1.2", True), ("2.0.0", "Allow", "^1.2", False)):
            for rename in (("none", "hyph") if cfg != "absent" else ("none",)):
                for params in ("p0", "p1r", "p2ri"):
                    out.append(dict(cfg=cfg, policy=policy, req=req, m=m, rename=rename, params=params,
                                    use=use, malformed=None))
    # paths in which the crate identifier occurs more than once (only the FIRST segment is the crate)
    for cfg, policy, req, m in (("*", "Generate", "1.2.3", None), ("1.4.0", "Deny", "^1.2", True), ("absent", "Allow", "1.2.3", None)):
        for rename in (RENAMES if cfg != "absent" else ["none"]):
            for params in ("p0", "p1r"):
                for use in ("def_eq", "def_diff", "inline"):
                    out.append(dict(cfg=cfg, policy=policy, req=req, m=m, rename=rename, params=params,
                                    use=use, malformed=None, pathkind="repeat"))
    # malformed extensions in configurations that would otherwise substitute
    for mal in ("bad_req", "path_no_sep", "path_wrong_crate", "path_prefix_of_crate", "path_crate_is_prefix", "wrong_types",
                "missing_version"):
        for cfg, policy in (("absent", "Allow"), ("*", "Generate"), ("1.2.3", "Deny")):
            for params in ("p0", "p1r"):
                for use in ("def_eq", "def_diff", "inline"):
                    out.append(dict(cfg=cfg, policy=policy, req="1.2.3", m=True, rename="none", params=params,
                                    use=use, malformed=mal))
    return out


def run(tier, seed, replay=None):
    rep = util.Report(PROP, tier, seed)
    rep.exhaustive = True
    rep.rule = ("full product: crate configuration {absent,*,!,version} x unknown policy {Generate,Allow,Deny} x "
                "requirement/version triples (both sides of every semver operator) x rename {none,plain,hyphenated} x "
                "parameters {0,1,2; inline,$ref} x use {definition named like the path, definition named differently, "
                "inline property schema} + malformed extensions; every cell is one run of the real generator. "
                "Non-trivial: every cell; distinct by cell coordinates.")
    rep.assumptions = [
        "expected decision = 30-line reference function written from the README; semver outcomes come from a fixed "
        "table taken from the Cargo reference, not from a re-implementation",
        "observation through the public API: Type::ident() of the property typed by the annotated schema, "
        "TypeDetails of the definition, and item names in the parsed output",
    ]
    cs = cells()
    if tier == "quick":
        pass  # the whole table is cheap enough for the quick tier as well
    cases, meta = [], {}
    for i, c in enumerate(cs):
        doc, settings = make_cell(c["cfg"], c["policy"], c["req"], c["rename"], c["params"], c["use"], c["malformed"],
                                  c.get("pathkind"))
        cid = "x%05d" % i
        cases.append({"id": cid, "settings": settings, "history": [{"op": "root", "schema": doc}],
                      "opts": {"code": False, "has_impl": False, "hooks": True}})
        meta[cid] = c
    if replay:
        data = json.load(open(replay))
        f = data.get("first") or data
        cases = [f["case"]]
        meta = {f["case"]["id"]: f["cell"]}
    run_ = pipeline.Run(PROP, "main")
    results = run_.vgen(cases, shards=util.NCPU)
    hook_x = 0
    for cid, res in results.items():
        c = meta[cid]
        case = next(x for x in cases if x["id"] == cid) if len(cases) < 50 else \
            {"id": cid, "settings": cases[int(cid[1:])]["settings"], "history": cases[int(cid[1:])]["history"]}
        rep.evaluations += 1
        st = vgen.ingest_status(res)
        if st != "ok":
            rep.violation("not_ingested", st, {"cell": c, "steps": res.get("steps")}, case=case, cell=c)
            continue
        hook_x += sum(1 for h in res.get("hooks") or [] if h.get("k") == "xrust")
        m = c["m"]
        want_sub = expected(c["cfg"], c["policy"], m, c["malformed"])
        types = {t["id"]: t for t in res["types"]}
        user = next((t for t in res["types"] if t["kind"] == "struct" and t["name"] == "User"), None)
        if user is None:
            rep.violation("no_user_type", "-", {"cell": c}, case=case, cell=c)
            continue
        ft = types[user["props"][0]["type_id"]]
        site_use = c["use"]
        if c["use"] in SITES:
            ft = peel(ft, types, c["use"])
            c = dict(c, use="def_diff")
        items = {f["name"]: f for f in res.get("facts") or [] if f["kind"] in ("struct", "enum") and f["mod"] == ""}
        # what happened?
        target = ft
        wrapper = None
        if ft["kind"] == "newtype" and c["use"] == "def_diff":
            inner = types[ft["inner"]]
            if inner["kind"] == "builtin":
                wrapper, target = ft, inner
        substituted = target["kind"] == "builtin" and "::" in (target.get("builtin") or "")
        site = "cfg=%s;policy=%s;mal=%s;use=%s" % ("version" if c["m"] is not None and c["cfg"] not in ("absent", "*", "!")
                                                  else c["cfg"], c["policy"], c["malformed"], site_use)
        if substituted != want_sub:
            rep.violation("decision", site, {"cell": c, "expected_substitution": want_sub, "observed": ft["ident"]},
                          case=case, cell=c)
            continue
        if want_sub:
            first = (RENAMES[c["rename"]] or CRATE).replace("-", "_") if c["cfg"] != "absent" else CRATE.replace("-", "_")
            path = "::" + first + PATHS[c.get("pathkind")][len("ext_crate"):]
            exp_ident = path
            ps = PARAM_IDENTS[c["params"]]
            if ps:
                exp_ident += "<" + "".join(p + "," for p in ps) + ">"
            got = norm(target["ident"])
            if got != exp_ident:
                rep.violation("path", site + ";rename=%s;params=%s" % (c["rename"], c["params"]),
                              {"cell": c, "expected": exp_ident, "observed": got}, case=case, cell=c)
                continue
            # the schema's own structure must not be generated
            gen_names = [n for n, it in items.items() if it["kind"] == "struct" and
                         any(f.get("ident") == "v" for f in it.get("fields") or [])]
            if gen_names:
                rep.violation("structure_generated", site, {"cell": c, "items": gen_names}, case=case, cell=c)
                continue
            if c["use"] == "def_eq" and PATHS[c.get("pathkind")].split("::")[-1] in items:
                rep.violation("definition_item_present", site, {"cell": c}, case=case, cell=c)
                continue
            if c["use"] == "def_diff" and wrapper is None:
                # used directly (typify does this for parameterised paths): the property allows either form
                rep.count("def_diff_direct")
                if "Other" in items:
                    rep.violation("definition_item_present", site, {"cell": c}, case=case, cell=c)
                    continue
            elif c["use"] == "def_diff":
                w = items.get("Other")
                rep.count("def_diff_wrapper")
                if w is None or w.get("shape") != "tuple" or \
                        w.get("serde", {}).get("transparent") is not True or \
                        norm(w["fields"][0]["ty"]) != exp_ident:
                    rep.violation("wrapper", site, {"cell": c, "item": w, "type": ft}, case=case, cell=c)
                    continue
            if c["use"] == "inline" and norm(ft["ident"]) != exp_ident:
                rep.violation("inline_use", site, {"cell": c, "observed": ft["ident"]}, case=case, cell=c)
                continue
        else:
            # generated from the schema: a struct with field v must exist and f must name it
            if ft["kind"] != "struct" or not any(p["name"] == "v" for p in ft.get("props") or []):
                rep.violation("not_generated_from_schema", site, {"cell": c, "type": ft}, case=case, cell=c)
                continue
            if norm(ft["name"]) not in items:
                rep.violation("generated_item_missing", site, {"cell": c, "type": ft["name"]}, case=case, cell=c)
                continue
        rep.count("substituted" if want_sub else "generated")
        c = dict(c, use=site_use)
        rep.count("site_" + site_use)
        rep.nontrivial.add(json.dumps(c, sort_keys=True))
        if len(rep.samples) < 6 and (c["rename"] != "none" or c["malformed"]):
            rep.sample({"cell": c, "substituted": want_sub, "f_type": ft["ident"]})
    # one generic external path used twice with different parameters (inline members of one struct)
    tp_cases, tp_meta = [], {}
    for j, (pa, pb) in enumerate([("p1i", "p1r"), ("p1r", "p1i"), ("p2ir", "p2ri"), ("p1i", "p0")]):
        def tgt(params):
            x = {"crate": CRATE, "version": "1.2.3", "path": PATH}
            if PARAMS[params]:
                x["parameters"] = PARAMS[params]
            return {"type": "object", "properties": {"v": {"type": "integer"}}, "required": ["v"], "x-rust-type": x}
        doc = {"definitions": {"P1": {"type": "object", "properties": {"z": {"type": "boolean"}}},
                               "User": {"type": "object", "required": ["a", "b"],
                                        "properties": {"a": tgt(pa), "b": tgt(pb), "c": {"type": "array", "items": tgt(pa)}}}}}
        cid = "tp%02d" % j
        tp_cases.append({"id": cid, "settings": {"unknown_crates": "Generate", "crates": [{"name": CRATE, "version": "*"}]},
                         "history": [{"op": "root", "schema": doc}], "opts": {"code": False, "has_impl": False, "hooks": False}})
        tp_meta[cid] = (pa, pb)
    if not replay:
        res_tp = pipeline.Run(PROP, "twoparams").vgen(tp_cases)
        for cid, res in res_tp.items():
            pa, pb = tp_meta[cid]
            rep.evaluations += 1
            case = next(c_ for c_ in tp_cases if c_["id"] == cid)
            if vgen.ingest_status(res) != "ok":
                rep.violation("not_ingested", "two_params", {"steps": res.get("steps")}, case=case)
                continue
            types = {t["id"]: t for t in res["types"]}
            user = next((t for t in res["types"] if t["kind"] == "struct" and t["name"] == "User"), None)
            got = {p_["name"]: norm(types[p_["type_id"]]["ident"]) for p_ in (user or {}).get("props") or []}
            def want(params):
                ps = PARAM_IDENTS[params]
                return "::ext_crate::m::Target" + ("<" + "".join(x + "," for x in ps) + ">" if ps else "")
            exp = {"a": want(pa), "b": want(pb), "c": "::std::vec::Vec<%s>" % want(pa)}
            if got != exp:
                rep.violation("path", "two_params:%s/%s" % (pa, pb), {"expected": exp, "observed": got}, case=case)
            else:
                rep.count("two_params_ok")
                rep.nontrivial.add("tp:%s/%s" % (pa, pb))
    rep.notes["cells"] = len(cs)
    rep.notes["hook_xrust_events"] = hook_x
    if hook_x == 0:
        rep.inconclusive.append("x-rust-type hook never fired")
    return rep.finish(util.Findings(PROP, {}), min_nontrivial=1000)

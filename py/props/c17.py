"""C17 — the introspection API describes the code that is generated."""
import json
import re

from vlib import pipeline, schemagen, util, vgen
from vlib.driver import norm, type_facts, named_types, builder_names
from . import common, workloads

PROP = "C17"

TRAITS = {"FromStr": "::std::str::FromStr", "Display": "::std::fmt::Display", "Default": "::std::default::Default"}


def bounds_for(cid, res):
    out = []
    for t in res.get("types") or []:
        ident = t["ident"]
        # every reported ident must resolve where the output is placed
        out.append((("resolves", t["id"]), "const _: fn() = || { let _: ::std::option::Option<%s> = None; };" % ident))
        for tr, path in TRAITS.items():
            if (t.get("has_impl") or {}).get(tr):
                out.append((("has_impl", t["id"], tr),
                            "const _: fn() = || { fn a<T: %s>() {} a::<%s>(); };" % (path, ident)))
        if t.get("builder"):
            out.append((("builder_path", t["id"]),
                        "const _: fn() = || { let _: ::std::option::Option<%s> = None; };" % t["builder"]))
    return out


def has_serde_default(f):
    return "default" in (f.get("serde") or {})


def compare(res, rep, case):
    """Reported structure vs parsed output. Returns number of facts compared."""
    types = {t["id"]: t for t in res.get("types") or []}
    tf = type_facts(res)
    builders = builder_names(res)
    tm = (case.get("settings") or {}).get("type_mod")
    n = 0

    def ident_of(tid):
        t = types.get(tid)
        return norm(t["ident"]) if t else None

    def strip_mod(s):
        # field types inside the module do not carry the type_mod prefix
        return s.replace(tm + "::", "") if tm else s

    def viol(kind, site, det):
        rep.violation(kind, site, det, case=case)

    for t in res.get("types") or []:
        k = t["kind"]
        if k not in ("struct", "enum", "newtype"):
            continue
        name = norm(t["name"])
        it = tf.get(name)
        n += 1
        if it is None:
            viol("reported_type_not_generated", k, {"type": name})
            continue
        if t.get("builder"):
            if name not in builders:
                viol("builder_reported_but_not_emitted", k, {"type": name, "builder": t["builder"]})
        elif name in builders and k == "struct":
            viol("builder_emitted_but_not_reported", k, {"type": name})
        if k == "struct":
            if it["kind"] != "struct" or it.get("shape") != "named" and (t["props"] or it.get("fields")):
                viol("kind_mismatch", k, {"type": name, "item": it["kind"], "shape": it.get("shape")})
                continue
            fields = it.get("fields") or []
            if [p["name"] for p in t["props"]] != [f["ident"] for f in fields]:
                viol("struct_fields_differ", "names", {"type": name, "reported": [p["name"] for p in t["props"]],
                                                       "emitted": [f["ident"] for f in fields]})
                continue
            if t.get("props2") is not None and [p[0] for p in t["props2"]] != [p["name"] for p in t["props"]]:
                viol("properties_vs_properties_info", "names", {"type": name})
            for p, f in zip(t["props"], fields):
                n += 1
                if strip_mod(ident_of(p["type_id"]) or "") != norm(f["ty"]):
                    viol("struct_field_type_differs", "type", {"type": name, "field": p["name"],
                                                               "reported": ident_of(p["type_id"]), "emitted": norm(f["ty"])})
                if p["required"] == has_serde_default(f):
                    viol("required_flag_differs", "required=%s" % p["required"],
                         {"type": name, "field": p["name"], "reported_required": p["required"], "serde": f.get("serde")})
        elif k == "enum":
            if it["kind"] != "enum":
                viol("kind_mismatch", k, {"type": name, "item": it["kind"]})
                continue
            vs = it.get("variants") or []
            if [v["name"] for v in t["variants"]] != [v["ident"] for v in vs]:
                viol("enum_variants_differ", "names", {"type": name, "reported": [v["name"] for v in t["variants"]],
                                                       "emitted": [v["ident"] for v in vs]})
                continue
            for rv, ev in zip(t["variants"], vs):
                n += 1
                if rv["kind"] == "simple":
                    okk = ev["shape"] == "unit"
                elif rv["kind"] == "tuple":
                    want = [strip_mod(ident_of(x) or "") for x in rv["types"]]
                    got = [norm(f["ty"]) for f in ev["fields"]]
                    # a single-item tuple variant is emitted as one field of tuple type `(T,)`
                    okk = ev["shape"] == "tuple" and (want == got or (len(got) == 1 and got[0] == "(" + "".join(w + "," for w in want) + ")"))
                else:
                    okk = ev["shape"] == "named" and [p[0] for p in rv["props"]] == [f["ident"] for f in ev["fields"]] and \
                        [strip_mod(ident_of(p[1]) or "") for p in rv["props"]] == [norm(f["ty"]) for f in ev["fields"]]
                if not okk:
                    viol("enum_variant_differs", rv["kind"], {"type": name, "variant": rv["name"], "reported": rv, "emitted": ev})
        else:
            if it["kind"] != "struct" or it.get("shape") != "tuple" or len(it["fields"]) != 1:
                viol("kind_mismatch", k, {"type": name, "item": it["kind"], "shape": it.get("shape")})
                continue
            if strip_mod(ident_of(t["inner"]) or "") != norm(it["fields"][0]["ty"]):
                viol("newtype_inner_differs", "type", {"type": name, "reported": ident_of(t["inner"]),
                                                       "emitted": norm(it["fields"][0]["ty"])})
    # every emitted type definition must be reported by iter_types()
    reported = {norm(t["name"]) for t in res.get("types") or [] if t["kind"] in ("struct", "enum", "newtype")}
    for nm in tf:
        n += 1
        if nm not in reported:
            viol("emitted_type_not_reported", tf[nm]["kind"], {"type": nm})
    return n


def uses_check(res, rep, case):
    code = res.get("code") or ""
    flags = res.get("uses") or {}
    for crate, flag in (("chrono", "chrono"), ("uuid", "uuid"), ("serde_json", "serde_json"), ("regress", "regress")):
        present = re.search(r"(?<![A-Za-z0-9_])(::)?%s::" % crate, strip_docs(code)) is not None
        if present and not flags.get(flag):
            body = strip_docs(code)
            occ = re.findall(r"::serde_json::[A-Za-z_]+(?:::<)?", re.sub(r"\s+", "", body)) if crate == "serde_json" else []
            cause = "serde_json_only_in_rendered_defaults" if occ and all(o == "::serde_json::from_str::<" for o in occ) else None
            rep.violation("uses_flag_not_set", crate, {"crate": crate, "flags": flags, "occurrences": sorted(set(occ))[:5]},
                          case=case, cause=cause)
        elif present:
            rep.count("uses_flag_ok_" + crate)


def strip_docs(code):
    return "\n".join(l for l in code.splitlines() if not l.lstrip().startswith("///"))


def run(tier, seed, replay=None):
    rep = util.Report(PROP, tier, seed)
    rep.rule = ("documents from grammars F/G/C05 with defaults x sampled settings (builder, type_mod, map types, conversions, "
                "replacements); for every type yielded by iter_types(): name/ident/details/builder()/has_impl compared with syn "
                "facts of the output and with compiled assertions. Non-trivial: every compared named type; distinct by "
                "(kind, member count, has_impl vector, builder?).")
    rep.assumptions = ["field/variant order of the API equals emission order", "rustc judges has_impl claims and ident resolution",
                       "a crate 'appears in the output' if a `crate::` path occurs outside doc comments"]
    n = 140 if tier == "quick" else 3500
    cases, meta = [], {}
    for i in range(n):
        r = util.rng(seed, PROP, "doc", i)
        prof = ["F", "G", "C05"][i % 3]
        g = schemagen.SchemaGen(r, profile=prof, max_depth=3, avoid_known=False)
        doc = g.document()
        if r.random() < 0.5:
            doc = common.add_defaults(doc, r, p=0.5)
        settings, sig = workloads.sample_settings(r, doc)
        settings.pop("derives", None)
        for p in settings.get("patches", []):
            p.pop("derives", None)
        cid = "d%04d" % i
        cases.append({"id": cid, "settings": settings, "history": [{"op": "root", "schema": doc}],
                      "opts": {"has_impl": True}})
    # replaced / converted types with every subset of declared impls, used as untagged variant, alias and member
    import itertools as _it
    k_ = 0
    for impls in [list(c) for n_ in range(4) for c in _it.combinations(["FromStr", "Display", "Default"], n_)]:
        for how in ("replace", "convert"):
            doc = {"definitions": {
                "Loc": {"type": "string", "format": "custom-loc"},
                "Target": {"oneOf": [{"$ref": "#/definitions/Loc"}, {"type": "integer"}]},
                "Both": {"oneOf": [{"$ref": "#/definitions/Loc"}, {"type": "string", "format": "uuid"}]},
                "AliasOfLoc": {"$ref": "#/definitions/Loc"},
                "Holder": {"type": "object", "properties": {"l": {"$ref": "#/definitions/Loc"},
                                                            "t": {"$ref": "#/definitions/Target"}}}}}
            st = {"struct_builder": k_ % 2 == 0}
            if how == "replace":
                st["replacements"] = [{"name": "Loc", "type": "::vrt::support::ReplStr", "impls": impls}]
            else:
                st["conversions"] = [{"schema": {"type": "string", "format": "custom-loc"}, "type": "::vrt::support::ReplStr",
                                      "impls": impls}]
            cases.append({"id": "imp%03d" % k_, "settings": st, "history": [{"op": "root", "schema": doc}],
                          "opts": {"has_impl": True}})
            k_ += 1
    # uses_* flags are sticky per TypeSpace, so each construct that puts an external crate path into the output is
    # also run alone (nothing else in the document can have set the flag for it)
    lone = {
        "any_true": True, "any_empty": {}, "array_no_items": {"type": "array"},
        "array_items_true": {"type": "array", "items": True},
        "set_no_items": {"type": "array", "uniqueItems": True},
        "set_no_items_bounded": {"type": "array", "uniqueItems": True, "minItems": 1, "maxItems": 4},
        "set_items_true": {"type": "array", "uniqueItems": True, "items": {}},
        "map_any": {"type": "object"}, "map_true": {"type": "object", "additionalProperties": True},
        "map_pattern_any": {"type": "object", "patternProperties": {"^x-": {}}, "additionalProperties": False},
        "tuple_with_any": {"type": "array", "items": [{"type": "string"}, {}], "minItems": 2, "maxItems": 2},
        "required_without_schema": {"type": "object", "required": ["r"], "properties": {"s": {"type": "string"}}},
        "option_any": {"type": "object", "properties": {"o": {}}},
        "multi_type": {"type": ["string", "integer", "array"]},
        "default_any": {"type": "object", "properties": {"d": {"default": {"k": [1]}}}},
        # fixed-size arrays around the length up to which std implements Default
        "array31": {"type": "array", "items": {"type": "integer"}, "minItems": 31, "maxItems": 31},
        "array32": {"type": "array", "items": {"type": "string"}, "minItems": 32, "maxItems": 32},
        "array33": {"type": "array", "items": {"type": "integer"}, "minItems": 33, "maxItems": 33},
        "array40_bool": {"type": "array", "items": {"type": "boolean"}, "minItems": 40, "maxItems": 40},
        "tuple13": {"type": "array", "items": [{"type": "integer"}] * 13, "minItems": 13, "maxItems": 13},
        "tuple13_padded": {"type": "array", "items": [{"type": "string"}, {"type": "boolean"}], "additionalItems": {"type": "integer"},
                           "minItems": 13, "maxItems": 13},
        "tuple12_padded": {"type": "array", "items": [{"type": "string"}], "minItems": 12, "maxItems": 12},
        "date": {"type": "string", "format": "date"}, "date_time": {"type": "string", "format": "date-time"},
        "uuid": {"type": "string", "format": "uuid"},
        "pattern": {"type": "string", "pattern": "^[a-z]+$"},
        "enum_pattern": {"type": "string", "enum": ["ab", "cd"], "pattern": "^[a-z]+$"},
        "default_date": {"type": "object", "properties": {"d": {"type": "string", "format": "date", "default": "2020-01-02"}}},
        "default_uuid": {"type": "object", "properties": {"u": {"type": "string", "format": "uuid",
                                                              "default": "6ba7b810-9dad-11d1-80b4-00c04fd430c8"}}},
    }
    for j, (nm, sch) in enumerate(lone.items()):
        for wrap in ("def", "member", "item"):
            if wrap == "def":
                doc = {"definitions": {"Lone": sch}} if isinstance(sch, dict) and sch else \
                    {"definitions": {"Lone": {"type": "object", "properties": {"m": sch}, "required": ["m"]}}}
            elif wrap == "member":
                doc = {"definitions": {"Lone": {"type": "object", "properties": {"m": sch}, "required": ["m"]}}}
            else:
                doc = {"definitions": {"Lone": {"type": "array", "items": sch}}}
            cases.append({"id": "lone_%s_%s" % (nm, wrap), "settings": {"struct_builder": j % 2 == 0},
                          "history": [{"op": "root", "schema": doc}], "opts": {"has_impl": True}})
    # struct names on which Pascal-casing is not idempotent (adjacent one-letter words), with builders and with/without type_mod
    for j, dn in enumerate(["point_x_y", "a_b_c", "v_x", "HTTPServer", "x"]):
        doc = {"definitions": {dn: {"type": "object", "properties": {"x": {"type": "object", "properties": {"y": {"type": "integer"}}},
                                                                     "n": {"type": "integer"}}}}}
        st = {"struct_builder": True}
        if j % 2:
            st["type_mod"] = "types"
        cases.append({"id": "bn%02d" % j, "settings": st, "history": [{"op": "root", "schema": doc}], "opts": {"has_impl": True}})
    for name, doc in workloads.load_fixtures():
        st = {"struct_builder": True}
        if name == "x-rust-type":
            st["crates"] = [{"name": "std", "version": "1.0.0"}]
        cases.append({"id": "fx_" + re.sub(r"[^A-Za-z0-9]", "_", name), "settings": st,
                      "history": [{"op": "root", "schema": doc}], "opts": {"has_impl": True}})
    if replay:
        data = json.load(open(replay))
        cases = [(data.get("first") or data)["case"]]
    run_ = pipeline.Run(PROP, "main")
    results = run_.vgen(cases)
    common.count_ingest(rep, results)
    by_case = {c["id"]: c for c in cases}
    ok = set()
    for cid, res in results.items():
        if res.get("abort") and (res["abort"].get("phase") == "post"):
            # the API itself (has_impl) never returned
            rep.violation("api_query_diverges", "abort in phase post", {"info": res["abort"]}, case=by_case[cid])
        if res.get("types_panic"):
            rep.violation("api_query_panics", common.site_of(res["types_panic"]), {"msg": res["types_panic"]}, case=by_case[cid])
        if res.get("ingest_ok") and res.get("syn") == "ok" and res.get("types") is not None:
            ok.add(cid)
    if not ok:
        rep.inconclusive.append("nothing ingested")
        return rep.finish(util.Findings(PROP, {}))
    for cid in sorted(ok):
        rep.evaluations += compare(results[cid], rep, by_case[cid])
        uses_check(results[cid], rep, by_case[cid])
        for t in results[cid]["types"]:
            if t["kind"] in ("struct", "enum", "newtype"):
                hi = t.get("has_impl") or {}
                rep.nontrivial.add((t["kind"], len(t.get("props") or t.get("variants") or []),
                                    hi.get("FromStr"), hi.get("Display"), hi.get("Default"), bool(t.get("builder"))))
    run_.compile(ids=ok, bounds_fn=bounds_for, want_builder=False, want_str=False, want_default=False)
    s2 = run_.s2
    for cid in sorted(ok):
        res = results[cid]
        case = by_case[cid]
        if cid in s2.removed:
            rep.count("compile_failed(C01)")
            d0 = (s2.diags.get(cid) or [{}])[0]
            rep.notes.setdefault("compile_failed_cases", []).append(
                {"case": cid, "code": d0.get("code"), "msg": (d0.get("message") or "")[:160]})
            continue
        types = {t["id"]: t for t in res["types"]}
        failed = {m: d for m, d in s2.bounds_failed.get(cid, [])}
        for marker, line in bounds_for(cid, res):
            rep.evaluations += 1
            if marker in failed:
                t = types[marker[1]]
                d = failed[marker]
                if marker[0] == "has_impl":
                    cause = None
                    it = type_facts(res).get(norm(t["name"]))
                    inner = types.get(t.get("inner")) if t["kind"] == "newtype" else None
                    if marker[2] == "Display" and it and inner and inner["kind"] == "string" and \
                            "::serde::Deserialize" not in (it.get("derives") or []):
                        cause = "display_claimed_for_constrained_string_newtype"
                    rep.violation("has_impl_true_but_not_implemented", "%s/%s" % (marker[2], t["kind"]),
                                  {"type": t["ident"], "trait": marker[2], "kind": t["kind"], "msg": d.get("rendered", "")[:500]},
                                  case=case, type_kind=t["kind"], trait=marker[2], cause=cause)
                elif marker[0] == "resolves":
                    rep.violation("ident_does_not_resolve", t["kind"], {"ident": t["ident"], "msg": d.get("rendered", "")[:500]},
                                  case=case)
                else:
                    rep.violation("builder_path_does_not_resolve", t["kind"], {"builder": t.get("builder"),
                                                                                "msg": d.get("rendered", "")[:500]}, case=case)
            else:
                rep.count("assert_ok_" + marker[0])
        if len(rep.samples) < 3:
            t0 = next((t for t in res["types"] if t["kind"] == "struct"), None)
            if t0:
                rep.sample({"case": cid, "type": t0["name"], "props": t0["props"], "has_impl": t0.get("has_impl"),
                            "builder": t0.get("builder")})
    rep.notes["stage2"] = {"cases": len(s2.order), "removed": len(s2.removed), "rounds": s2.rounds}
    return rep.finish(util.Findings(PROP, dict(common.PREDS, **PREDS)), min_nontrivial=20)


PREDS = {}


def _p(f):
    PREDS[f.__name__] = f
    return f


@_p
def has_impl_case(v, trait=None, type_kind=None, msg_re=None):
    if trait and v.get("trait") != trait:
        return False
    if type_kind and v.get("type_kind") != type_kind:
        return False
    if msg_re and not re.search(msg_re, json.dumps(v.get("detail"))):
        return False
    return True

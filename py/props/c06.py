"""C06 — schema defaults are reproduced exactly, or rejected when the schema is added."""
import copy
import json

from vlib import instgen, oracle, pipeline, util, vgen
from vlib.driver import norm
from . import common
from .c03 import contained
from .c05 import strip_unenforced

PROP = "C06"

LEAF = {"type": "object", "properties": {"v": {"type": "integer"}, "s": {"type": "string", "default": "leafdflt"}},
        "required": ["v"]}
COLOR = {"type": "string", "enum": ["red", "dark-green", "Blue"]}

KINDS = {
    "bool": {"type": "boolean"},
    "int": {"type": "integer"},
    "uint8": {"type": "integer", "format": "uint8", "minimum": 0},
    "int32": {"type": "integer", "format": "int32"},
    "int64": {"type": "integer", "format": "int64"},
    "uint64": {"type": "integer", "format": "uint64", "minimum": 0},
    "nonzero32": {"type": "integer", "format": "uint32", "minimum": 1},
    "nonzero64": {"type": "integer", "minimum": 1},
    "int_bounded": {"type": "integer", "minimum": -5, "maximum": 10},
    "float": {"type": "number", "format": "float"},
    "double": {"type": "number"},
    "string": {"type": "string"},
    "string_len": {"type": "string", "minLength": 2, "maxLength": 5},
    "string_pat": {"type": "string", "pattern": "^[a-z]+$"},
    "uuid": {"type": "string", "format": "uuid"},
    "date": {"type": "string", "format": "date"},
    "datetime": {"type": "string", "format": "date-time"},
    "ip": {"type": "string", "format": "ip"},
    "ipv4": {"type": "string", "format": "ipv4"},
    "str_enum": COLOR,
    "int_enum": {"type": "integer", "enum": [1, 2, 3]},
    "opt_typelist": {"type": ["string", "null"]},
    "opt_int": {"type": ["integer", "null"], "format": "int32"},
    "opt_ref": {"anyOf": [{"$ref": "#/definitions/Leaf"}, {"type": "null"}]},
    "vec_int": {"type": "array", "items": {"type": "integer"}},
    "vec_str": {"type": "array", "items": {"type": "string"}},
    "vec_ref": {"type": "array", "items": {"$ref": "#/definitions/Leaf"}},
    "set_str": {"type": "array", "items": {"type": "string"}, "uniqueItems": True},
    "map_int": {"type": "object", "additionalProperties": {"type": "integer"}},
    "map_any": {"type": "object"},
    "tuple2": {"type": "array", "items": [{"type": "integer"}, {"type": "string"}], "minItems": 2, "maxItems": 2},
    "tuple1": {"type": "array", "items": [{"type": "integer"}], "minItems": 1, "maxItems": 1},
    "tuple3": {"type": "array", "items": [{"type": "boolean"}, {"$ref": "#/definitions/Color"}, {"type": "number"}],
               "minItems": 3, "maxItems": 3},
    "array3": {"type": "array", "items": {"type": "integer", "format": "uint8"}, "minItems": 3, "maxItems": 3},
    "struct": {"type": "object", "properties": {"a": {"type": "integer"}, "b": {"type": "string"}}, "required": ["a"]},
    "struct_closed": {"type": "object", "properties": {"a": {"type": "integer"}}, "required": ["a"],
                      "additionalProperties": False},
    "struct_nested_default": {"type": "object", "properties": {"a": {"type": "integer"}, "leaf": {"$ref": "#/definitions/Leaf"}},
                              "required": ["a", "leaf"]},
    "struct_flat": {"type": "object", "properties": {"a": {"type": "integer"}}, "required": ["a"],
                    "additionalProperties": {"type": "string"}},
    "struct_renamed_flat": {"type": "object", "properties": {"displayName": {"type": "string"}, "a": {"type": "integer"}},
                            "required": ["a"], "additionalProperties": {"type": "integer"}},
    "struct_renamed_flat_str": {"type": "object", "properties": {"displayName": {"type": "string"}, "a-b": {"type": "string"}},
                                "additionalProperties": {"type": "string"}},
    "struct_ref": {"$ref": "#/definitions/Leaf"},
    "enum_ref": {"$ref": "#/definitions/Color"},
    "external": {"oneOf": [{"type": "string", "enum": ["Unit"]},
                           {"type": "object", "required": ["N"], "properties": {"N": {"type": "integer"}},
                            "additionalProperties": False},
                           {"type": "object", "required": ["S"],
                            "properties": {"S": {"type": "object", "properties": {"x": {"type": "integer"}, "y": {"type": "string"}},
                                                 "required": ["x"]}},
                            "additionalProperties": False},
                           {"type": "object", "required": ["T"],
                            "properties": {"T": {"type": "array", "items": [{"type": "integer"}, {"type": "boolean"}],
                                                 "minItems": 2, "maxItems": 2}},
                            "additionalProperties": False}]},
    "internal": {"oneOf": [{"type": "object", "properties": {"t": {"type": "string", "enum": ["A"]}, "x": {"type": "integer"}},
                            "required": ["t", "x"]},
                           {"type": "object", "properties": {"t": {"type": "string", "enum": ["B"]}}, "required": ["t"]}]},
    "adjacent": {"oneOf": [{"type": "object", "properties": {"t": {"type": "string", "enum": ["A"]},
                                                              "c": {"type": "integer"}}, "required": ["t", "c"]},
                           {"type": "object", "properties": {"t": {"type": "string", "enum": ["B"]},
                                                              "c": {"type": "array", "items": {"type": "string"}}},
                            "required": ["t", "c"]},
                           {"type": "object", "properties": {"t": {"type": "string", "enum": ["U"]}}, "required": ["t"]}]},
    "adjacent_closed": {"oneOf": [{"type": "object", "properties": {"t": {"type": "string", "enum": ["A"]}, "c": {"type": "integer"}},
                                   "required": ["t", "c"], "additionalProperties": False},
                                  {"type": "object", "properties": {"t": {"type": "string", "enum": ["U"]}}, "required": ["t"],
                                   "additionalProperties": False}]},
    "untagged_tuple1": {"oneOf": [{"type": "array", "items": [{"type": "integer"}], "minItems": 1, "maxItems": 1}, {"type": "string"}]},
    "external_tuple1": {"oneOf": [{"type": "string", "enum": ["None"]},
                                  {"type": "object", "required": ["One"], "additionalProperties": False,
                                   "properties": {"One": {"type": "array", "items": [{"type": "integer"}], "minItems": 1, "maxItems": 1}}}]},
    "untagged": {"oneOf": [{"type": "integer"}, {"type": "string"},
                           {"type": "object", "properties": {"k": {"type": "boolean"}}, "required": ["k"]}]},
    "boxed": {"$ref": "#/definitions/Tree"},
    "unit": {"type": "null"},
    "any": {},
}
BASE_DEFS = {
    "Leaf": LEAF, "Color": COLOR,
    "Tree": {"type": "object", "properties": {"n": {"type": "integer"}, "kid": {"$ref": "#/definitions/Tree"}},
             "required": ["n"]},
}

HAND_VALUES = {
    "bool": [True, False], "int": [0, -7, 42], "uint8": [0, 255, 7], "int32": [-2147483648, 5], "int64": [-9007199254740993, 3],
    "uint64": [18446744073709551615, 0], "nonzero32": [1, 4000000000], "nonzero64": [1, 99], "int_bounded": [-5, 10, 0],
    "float": [0.5, -1.25, 0.0], "double": [1e10, 0.1, -3.0], "string": ["", "x", "ünï \"q\" \\ {b}"],
    "string_len": ["ab", "abcde", "éé", "ééé", "中中中中中"], "string_pat": ["abc"], "uuid": ["550e8400-e29b-41d4-a716-446655440000"],
    "date": ["2020-02-29"], "datetime": ["2021-03-04T05:06:07Z"], "ip": ["10.0.0.1", "::1"], "ipv4": ["192.168.0.1"],
    "str_enum": ["red", "dark-green", "Blue"], "int_enum": [1, 3], "opt_typelist": [None, "s"], "opt_int": [None, 5],
    "opt_ref": [None, {"v": 1}], "vec_int": [[], [1, 2, 3]], "vec_str": [["a"], []], "vec_ref": [[{"v": 1}, {"v": 2, "s": "q"}]],
    "set_str": [["a", "b"]], "map_int": [{}, {"k": 1, "j": -2}], "map_any": [{}, {"k": [1, None, "x"]}],
    "tuple2": [[3, "s"]], "tuple1": [[3]], "tuple3": [[True, "dark-green", 1.5]], "array3": [[1, 2, 3], [0, 0, 0]],
    "struct": [{"a": 1}, {"a": 2, "b": "x"}], "struct_closed": [{"a": 1}], "struct_nested_default": [{"a": 1, "leaf": {"v": 2}}],
    "struct_flat": [{"a": 1}, {"a": 1, "more": "x", "yet": "y"}], "struct_ref": [{"v": 9}, {"v": 9, "s": "given"}],
    "struct_renamed_flat": [{"a": 1, "displayName": "anon"}, {"a": 1, "displayName": "anon", "more": 5}],
    "struct_renamed_flat_str": [{"displayName": "anon", "a-b": "c"}, {"displayName": "anon", "zz": "y"}],
    "enum_ref": ["Blue"], "external": ["Unit", {"N": 5}, {"S": {"x": 1}}, {"S": {"x": 1, "y": "z"}}, {"T": [1, True]}],
    "internal": [{"t": "A", "x": 3}, {"t": "B"}], "adjacent": [{"t": "A", "c": 4}, {"t": "B", "c": ["q"]}, {"t": "U"}],
    "adjacent_closed": [{"t": "A", "c": 4}, {"t": "U"}],
    "untagged_tuple1": [[0], [5], "s"], "external_tuple1": ["None", {"One": [7]}],
    "untagged": [5, "five", {"k": True}], "boxed": [{"n": 1}, {"n": 1, "kid": {"n": 2}}], "unit": [None],
    "any": [None, 1, "s", [1, {"a": None}], {"k": 1.5}],
}

BAD_VALUES = {   # violations of represented constraints (or of the integer range of the format/bounds)
    "bool": ["true", 1, None], "int": ["1", 1.5, None, [1]], "uint8": [256, -1, "7"], "int32": [2147483648, "x"],
    "uint64": [-1], "nonzero32": [0, -3], "nonzero64": [0], "int_bounded": [-6, 11], "float": ["0.5", None],
    "string": [5, None, ["s"], {"a": 1}, True], "string_len": ["a", "abcdef", 7], "string_pat": ["ABC", "", 5],
    "str_enum": ["green", "Red", 1, None], "int_enum": [4, "1"], "opt_typelist": [5, [None]], "opt_ref": [{"s": "no v"}, 7],
    "vec_int": [["a"], 5, {"0": 1}], "vec_str": [[1]], "set_str": [["a", "b", "a"], ["a", "a"], ["a", "b", "c", "b"], [1]], "vec_ref": [[{"s": "x"}]], "map_int": [{"k": "v"}, [1]],
    "tuple2": [[3], [3, "s", 1], ["s", 3], 3], "tuple1": [[], [1, 2], 3], "tuple3": [[True, "purple", 1.5]],
    "array3": [[1, 2], [1, 2, 3, 4], [1, 2, 300]], "struct": [{}, {"a": "x"}, {"b": "x"}, 5, []],
    "struct_closed": [{"a": 1, "zz": 2}], "struct_nested_default": [{"a": 1}, {"a": 1, "leaf": {}}],
    "struct_flat": [{"a": 1, "more": 5}, {"a": "fits the extra map only"}],
    "struct_renamed_flat": [{"a": 1, "more": "x"}, {"displayName": "anon"}, {"a": 1, "displayName": 5}],
    "struct_renamed_flat_str": [{"displayName": 5}], "struct_ref": [{"s": "only"}], "enum_ref": ["blue"],
    "external": ["Nope", {"N": "x"}, {"S": {}}, {"T": [1]}, {"N": 1, "S": {"x": 1}}],
    "internal": [{"t": "C"}, {"t": "A"}, {"x": 3}], "adjacent": [{"t": "A"}, {"t": "A", "c": "x"}, {"t": "Z", "c": 1}],
    "adjacent_closed": [{"t": "A", "c": 4, "zz": 1}, {"t": "U", "zz": 1}, {"t": "U", "c": 1}],
    "untagged_tuple1": [[1, 2], ["x"], 5], "external_tuple1": [{"One": [1, 2]}, {"One": 7}, "Some"],
    "untagged": [1.5, None, {"k": 1}], "boxed": [{"kid": {"n": 1}}, {"n": 1, "kid": {}}], "unit": [0, "null"],
    "uuid": ["not-a-uuid", 5], "date": ["2020-13-40", 5], "datetime": ["yesterday"], "ip": ["300.1.1.1"], "ipv4": ["::1"],
}


from .c03 import RUST_ZERO


def added_leaves(d, r, path=()):
    """Members present in the realised value r but absent from the schema default d."""
    if isinstance(d, dict) and isinstance(r, dict):
        for k, x in r.items():
            if k not in d:
                yield path + (k,), x
            else:
                yield from added_leaves(d[k], x, path + (k,))
    elif isinstance(d, list) and isinstance(r, list):
        for i, (a, b) in enumerate(zip(d, r)):
            yield from added_leaves(a, b, path + (i,))


def build_doc(kind, value, form):
    defs = copy.deepcopy(BASE_DEFS)
    s = copy.deepcopy(KINDS[kind])
    if form == "prop_optional":
        ps = dict(s, default=value) if "$ref" not in s else {"$ref": s["$ref"], "default": value}
        defs["Holder"] = {"type": "object", "properties": {"p": ps, "other": {"type": "integer"}}}
    elif form == "prop_required":
        ps = dict(s, default=value) if "$ref" not in s else {"$ref": s["$ref"], "default": value}
        defs["Holder"] = {"type": "object", "properties": {"p": ps, "other": {"type": "integer"}}, "required": ["p"]}
    elif form == "named":
        defs["Named"] = dict(s, default=value)
        defs["Holder"] = {"type": "object", "properties": {"p": {"$ref": "#/definitions/Named"}, "other": {"type": "integer"}}}
    elif form == "prop_of_named":
        defs["Named"] = s
        defs["Holder"] = {"type": "object", "properties": {"p": {"$ref": "#/definitions/Named", "default": value}}}
    return {"definitions": defs}


def honoured_in_code(res, d):
    """Is the property default wired into the code? (typify ignores defaults of number-typed and of inline
    struct-typed properties: the member is a plain Option with serde's intrinsic default)"""
    for f in res.get("facts") or []:
        if f["kind"] == "struct" and f["mod"] == "" and f["name"] == "Holder":
            for fld in f.get("fields") or []:
                if fld.get("ident") == "p":
                    sd = fld.get("serde") or {}
                    if isinstance(sd.get("default"), str):
                        return True
                    return not norm(fld.get("ty") or "").startswith("::std::option::Option<")
    return True


def prop_schema(kind):
    return KINDS[kind]


def run(tier, seed, replay=None):
    rep = util.Report(PROP, tier, seed)
    rep.rule = ("one case per (type kind of the quantifier's list, default value, form) with forms: optional property with "
                "default, required property with default, default on a named definition, default next to a $ref; valid values "
                "(hand-picked + oracle-checked generated) must be realised by serde-default / Default impl / builder; values "
                "violating a represented constraint must make ingestion return Err. Non-trivial: every judged case; distinct "
                "by (kind, value, form).")
    rep.assumptions = common.ORACLE_ASSUMPTIONS + [
        "an invalid default is one the oracle rejects under the schema reduced to represented constraints (C05's reduction) "
        "or one outside the integer range implied by format/bounds",
        "realised value r is accepted when default is contained in r (nested defaults may be filled) and r is oracle-valid",
    ]
    forms = ["prop_optional", "prop_required", "named", "prop_of_named"]
    cases, meta = [], {}
    r = util.rng(seed, PROP, "vals")
    idx = 0
    for kind in KINDS:
        vals = [(v, True) for v in HAND_VALUES.get(kind, [])]
        # generated valid values
        ig = instgen.InstGen(util.rng(seed, PROP, "gen", kind), BASE_DEFS, undeclared=False)
        n_gen = 2 if tier == "quick" else 10
        for v in ig.instances(KINDS[kind], n_gen):
            if pipeline.within_i64(v) or kind == "uint64":
                vals.append((v, True))
        vals += [(v, False) for v in BAD_VALUES.get(kind, [])]
        seen = set()
        for v, intended_valid in vals:
            key = json.dumps(v, sort_keys=True)
            if key in seen:
                continue
            seen.add(key)
            valid = oracle.valid_against(KINDS[kind], v, BASE_DEFS)
            stripped = strip_unenforced({"definitions": dict(BASE_DEFS, X=KINDS[kind])})
            enforced_invalid = not oracle.Oracle(stripped).valid(v, "X")
            range_invalid = (not valid) and isinstance(v, int) and not isinstance(v, bool) and \
                KINDS[kind].get("type") == "integer"
            # uniqueness is not represented in the generated type (a set is a Vec), but typify does check it when it
            # validates a default, so a default with repeated members is judged
            dup_invalid = (not valid) and isinstance(v, list) and KINDS[kind].get("uniqueItems") and \
                len({json.dumps(x_, sort_keys=True) for x_ in v}) != len(v)
            if not valid and not (enforced_invalid or range_invalid or dup_invalid):
                continue   # invalid only by an unrepresented constraint: not judged
            only_range = (not valid) and not enforced_invalid
            for form in (forms if tier == "thorough" else r.sample(forms, 3)):
                if form in ("named",) and kind in ("struct_ref", "enum_ref", "boxed"):
                    continue
                if only_range and form == "prop_of_named" and kind in ("int_bounded",):
                    continue   # bounds that typify does not represent in the referenced type (i64): not judged   # {$ref, default} as a definition is an alias; covered by prop_of_named
                cid = "q%05d" % idx
                idx += 1
                doc = build_doc(kind, v, form)
                cases.append({"id": cid, "settings": {"struct_builder": True}, "history": [{"op": "root", "schema": doc}]})
                meta[cid] = {"kind": kind, "value": v, "form": form, "valid": valid, "doc": doc}
    if replay:
        data = json.load(open(replay))
        f = data.get("first") or data
        cases = [f["case"]]
        meta = {f["case"]["id"]: f["meta"]}
    run_ = pipeline.Run(PROP, "main")
    results = run_.vgen(cases)
    ok_ids = set()
    pending_invalid = []
    honoured = set()
    for cid, res in results.items():
        m = meta[cid]
        st = vgen.ingest_status(res)
        rep.evaluations += 1
        case = next(c for c in cases if c["id"] == cid)
        site = "%s/%s" % (m["kind"], m["form"])
        if not m["valid"]:
            if st == "ok":
                pending_invalid.append((cid, site, case, m))
            elif st == "err":
                rep.count("invalid_default_err")
                rep.nontrivial.add((m["kind"], json.dumps(m["value"]), m["form"]))
            elif st == "panic":
                # the property demands an error *when the schema is added*; a panic at add time is still 'at add time'
                rep.count("invalid_default_panic_at_add")
                rep.nontrivial.add((m["kind"], json.dumps(m["value"]), m["form"]))
            else:
                rep.count("inconclusive_" + st)
            continue
        if st != "ok":
            rep.violation("valid_default_rejected", site + ":" + st,
                          {"kind": m["kind"], "value": m["value"], "form": m["form"], "msg": (res.get("steps") or [{}])[-1].get("msg")},
                          case=case, meta=m)
            continue
        if res.get("render") != "ok":
            rep.violation("render_panic", site + ":" + common.site_of(res.get("render_msg")),
                          {"kind": m["kind"], "value": m["value"], "form": m["form"], "msg": res.get("render_msg")},
                          case=case, meta=m)
            continue
        if res.get("syn") != "ok":
            rep.violation("syn_error", site, {"kind": m["kind"], "value": m["value"], "msg": res.get("syn_msg")}, case=case, meta=m)
            continue
        ok_ids.add(cid)
    if ok_ids:
        run_.compile(ids=ok_ids, want_builder=True)
        probes = []
        for cid in sorted(ok_ids):
            m = meta[cid]
            case = next(c for c in cases if c["id"] == cid)
            diags = [d for d in run_.s2.diags.get(cid, []) if d.get("file") == "gen"]
            if diags:
                rep.violation("uncompilable_default", "%s/%s %s" % (m["kind"], m["form"], diags[0].get("code")),
                              {"kind": m["kind"], "value": m["value"], "form": m["form"], "msg": diags[0]["rendered"][:700]},
                              case=case, meta=m)
                continue
            if cid in run_.s2.removed:
                rep.count("driver_error")
                continue
            info = run_.info[cid]
            res = results[cid]
            defs = res.get("defs") or {}
            holder = norm((defs.get("Holder") or {}).get("name") or "")
            if holder in info and m["form"] not in ("named", "prop_required"):
                # 'named': the default belongs to Named, not to Holder.p; 'prop_required': typify (like JSON Schema)
                # does not apply defaults to required members
                probes.append({"pid": len(probes), "case": cid, "ty": holder, "op": "de", "input": "{}", "what": "serde_default"})
                if "build" in info[holder]:
                    probes.append({"pid": len(probes), "case": cid, "ty": holder, "op": "build", "input": {"set": {}},
                                   "what": "builder"})
                if "default" in info[holder]:
                    probes.append({"pid": len(probes), "case": cid, "ty": holder, "op": "default", "input": None,
                                   "what": "holder_default"})
            named = norm((defs.get("Named") or {}).get("name") or "")
            if m["form"] == "named" and named in info and "default" in info[named]:
                probes.append({"pid": len(probes), "case": cid, "ty": named, "op": "default", "input": None,
                               "what": "named_default"})
            # reference for "up to filling of nested defaults": the schema default written out explicitly and read by
            # the type's own deserialiser, which fills nested members from THEIR declared defaults
            if m["form"] == "named" and named in info:
                probes.append({"pid": len(probes), "case": cid, "ty": named, "op": "de", "input": json.dumps(m["value"]),
                               "what": "ref_explicit"})
            elif holder in info:
                probes.append({"pid": len(probes), "case": cid, "ty": holder, "op": "de",
                               "input": json.dumps({"p": m["value"]}), "what": "ref_explicit"})
        outs, ab, to, sk = run_.probe([{k: v for k, v in p.items() if k != "what"} for p in probes])
        explicit = {}
        for p in probes:
            o = outs.get(p["pid"])
            if p["what"] == "ref_explicit" and o and o.get("ok") and o.get("w") is not None:
                try:
                    w_ = json.loads(o["w"])
                    explicit[p["case"]] = w_ if meta[p["case"]]["form"] == "named" else (w_.get("p") if isinstance(w_, dict) else None)
                except Exception:
                    pass
        for p in probes:
            if p["what"] == "ref_explicit":
                continue
            o = outs.get(p["pid"])
            if o is None:
                continue
            m = meta[p["case"]]
            case = next(c for c in cases if c["id"] == p["case"])
            site = "%s/%s/%s" % (m["kind"], m["form"], p["what"])
            rep.evaluations += 1
            d = m["value"]
            det = {"kind": m["kind"], "value": d, "form": m["form"], "via": p["what"], "out": o}
            if o.get("panic"):
                rep.violation("default_panic", site + ":" + common.site_of(o["panic"]), det, case=case, meta=m)
                continue
            # locate the realised value
            text = None
            if p["what"] == "serde_default":
                if not o.get("ok"):
                    if m["form"] == "prop_required":
                        # a required member with a default: serde may still insist on presence; typify gives it a default
                        rep.violation("default_not_applied", site, det, case=case, meta=m)
                    else:
                        rep.violation("default_not_applied", site, det, case=case, meta=m)
                    continue
                text = o.get("w")
            elif p["what"] == "builder":
                rr = o.get("r") or {}
                if not rr.get("ok"):
                    rep.violation("builder_default_missing", site, det, case=case, meta=m)
                    continue
                text = (rr.get("val") or {}).get("text")
            else:
                text = o.get("text") if o.get("ok") else None
                if text is None:
                    rep.violation("default_unserialisable", site, det, case=case, meta=m)
                    continue
            try:
                w = json.loads(text)
            except Exception:
                rep.violation("default_not_json", site, det, case=case, meta=m)
                continue
            if p["what"] == "named_default":
                realised, present = w, True
            else:
                present = isinstance(w, dict) and "p" in w
                realised = w.get("p") if present else None
            if not present and not honoured_in_code(results[p["case"]], d):
                rep.count("default_ignored_by_typify(Option without default fn)")
                continue
            if not present:
                # omitted on the wire: only acceptable when the default is an empty/null value
                if d in (None, [], {}) :
                    rep.count("realised_omitted_empty")
                    honoured.add((m["kind"], m["form"]))
                    rep.nontrivial.add((m["kind"], json.dumps(d), m["form"], p["what"]))
                    continue
                rep.violation("default_lost", site, dict(det, w=w), case=case, meta=m)
                continue
            c = contained(d, realised)
            if c:
                rep.violation("default_differs", site, dict(det, realised=realised, reason=c[1]), case=case, meta=m)
                continue
            if not oracle.valid_against(KINDS[m["kind"]], realised, BASE_DEFS):
                rep.violation("realised_default_invalid", site, dict(det, realised=realised), case=case, meta=m)
                continue
            ref = explicit.get(p["case"])
            if ref is not None and contained(ref, realised) is not None or (ref is not None and contained(realised, ref) is not None):
                # the members filled in differ from what the type's own deserialiser fills in for the same default
                extra = [[list(pa), x] for pa, x in added_leaves(d, realised)]
                from .c03 import without
                drop = {tuple(pa) for pa, _ in extra}
                same_otherwise = contained(without(realised, drop), without(ref, drop)) is None and \
                    contained(without(ref, drop), without(realised, drop)) is None
                cause = "nested_declared_default_replaced_by_rust_default" if extra and same_otherwise and all(
                    x in RUST_ZERO for _, x in extra) else None
                rep.violation("nested_default_fill_differs", "%s/%s" % (m["kind"], p["what"]),
                              dict(det, realised=realised, deserialised_explicit_default=ref, filled=extra[:4], cause=cause),
                              cause=cause, case=case, meta=m)
                continue
            if ref is not None:
                rep.count("fill_equals_deserialised_default")
            rep.count("realised_ok_" + p["what"])
            honoured.add((m["kind"], m["form"]))
            rep.nontrivial.add((m["kind"], json.dumps(d), m["form"], p["what"]))
            if len(rep.samples) < 6 and m["kind"] in ("external", "tuple2", "struct_nested_default", "map_int"):
                rep.sample({"kind": m["kind"], "default": d, "form": m["form"], "via": p["what"], "realised": realised})
    for cid, site, case, m in pending_invalid:
        if ((m["kind"], m["form"]) in honoured and m["form"] != "prop_required") or replay:
            rep.violation("invalid_default_accepted", site, {"kind": m["kind"], "value": m["value"], "form": m["form"]},
                          case=case, meta=m)
        else:
            rep.count("invalid_default_where_defaults_are_not_honoured")
    return rep.finish(util.Findings(PROP, dict(common.PREDS, **PREDS)), min_nontrivial=150)


PREDS = {}


def _p(f):
    PREDS[f.__name__] = f
    return f


@_p
def kind_form(v, kinds=None, forms=None, values=None):
    m = v.get("meta") or {}
    if kinds and m.get("kind") not in kinds:
        return False
    if forms and m.get("form") not in forms:
        return False
    if values is not None and m.get("value") not in values:
        return False
    return True

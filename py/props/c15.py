"""C15 — macro, cargo subcommand and builder generate the same types."""
import json
import os
import re
import shutil

from vlib import pipeline, util, vgen
from vlib.driver import norm
from . import common, c16

PROP = "C15"

TARGET_CLI = os.path.join(util.WORK, "target-cli")
TARGET_MACRO = os.path.join(util.WORK, "target-macro")
CLI_BIN = os.path.join(TARGET_CLI, "debug", "cargo-typify")
VRT = os.path.join(util.VERIF, "rt", "vrt")

CRATE_ALIASES = ["ext-crate9", "h2", "my_crate", "renamed2", "new-name", "vrt"]


def build_cli():
    env = util.cargo_env({"CARGO_TARGET_DIR": TARGET_CLI})
    rc, so, se, dt = util.run(["cargo", "build", "--offline", "-q", "-p", "cargo-typify"], cwd=util.REPO, env=env, timeout=3000)
    if rc != 0:
        raise RuntimeError("cargo-typify build failed:\n" + se[-3000:])
    util.log("[C15] cargo-typify built in %.1fs" % dt)


def warm():
    """Pre-build the CLI and the dependencies of the macro scratch crate (called from setup.sh)."""
    build_cli()
    d = os.path.join(util.WORK, "C15", "warm")
    shutil.rmtree(d, ignore_errors=True)
    os.makedirs(os.path.join(d, "src"))
    open(os.path.join(d, "Cargo.toml"), "w").write("""[package]
name = "c15macro"
version = "0.0.0"
edition = "2021"
publish = false

[workspace]

[dependencies]
typify = { path = "%s/typify" }
serde = { version = "1.0.219", features = ["derive"] }
serde_json = "1.0.140"
vrt = { path = "%s" }
""" % (util.REPO, VRT))
    shutil.copy(os.path.join(util.REPO, "Cargo.lock"), os.path.join(d, "Cargo.lock"))
    shutil.copy(os.path.join(util.REPO, "rust-toolchain.toml"), os.path.join(d, "rust-toolchain.toml"))
    json.dump({"definitions": {"W": {"type": "object", "properties": {"a": {"type": "string"}}}}},
              open(os.path.join(d, "w.json"), "w"))
    open(os.path.join(d, "src", "lib.rs"), "w").write('typify::import_types!(schema = "w.json");\n')
    env = util.cargo_env({"CARGO_TARGET_DIR": TARGET_MACRO})
    rc, so, se, dt = util.run(["cargo", "check", "--offline", "-q"], cwd=d, env=env, timeout=3000)
    if rc != 0:
        raise RuntimeError("macro warm-up failed:\n" + se[-2000:])
    util.log("[C15] macro dependencies warmed in %.1fs" % dt)


def gen_doc(r, with_ext):
    """A small document without floats / patterns / formats (so Eq derives and no extra crates are fine)."""
    defs = {
        "Thing": {"type": "object", "properties": {"name": {"type": "string"}, "count": {"type": "integer", "format": "uint32"},
                                                   "tags": {"type": "array", "items": {"type": "string"}},
                                                   "attrs": {"type": "object", "additionalProperties": {"type": "string"}},
                                                   "kind": {"$ref": "#/definitions/Kind"}},
                  "required": ["name"]},
        "Kind": {"type": "string", "enum": r.sample(["alpha", "beta-gamma", "Delta", "e_f", "g h"], r.randrange(2, 5))},
        "Other": {"type": "object", "properties": {"thing": {"$ref": "#/definitions/Thing"},
                                                   "code": {"type": "integer", "minimum": 7.0}},
                  "required": ["thing"]},
        "Choice": {"oneOf": [{"type": "object", "properties": {"t": {"type": "string", "enum": ["A"]},
                                                                "v": {"type": "integer"}}, "required": ["t", "v"]},
                             {"type": "object", "properties": {"t": {"type": "string", "enum": ["B"]},
                                                                "w": {"$ref": "#/definitions/Kind"}}, "required": ["t", "w"]}]},
    }
    # a definition that is only a reference to Kind, and an untagged union over it (both proxy Kind's impls)
    defs["KindAlias"] = {"$ref": "#/definitions/Kind"}
    defs["KindOrNum"] = {"oneOf": [{"$ref": "#/definitions/Kind"}, {"type": "integer"}]}
    if r.random() < 0.5:
        defs["Pair"] = {"type": "array", "items": [{"type": "string"}, {"$ref": "#/definitions/Kind"}], "minItems": 2, "maxItems": 2}
    if with_ext:
        crate = with_ext
        defs["External"] = {"type": "object", "properties": {"x": {"type": "string"}},
                            "x-rust-type": {"crate": crate, "version": "1.2.3",
                                            "path": crate.replace("-", "_") + "::support::ReplStr"}}
        defs["Other"]["properties"]["ext"] = {"$ref": "#/definitions/External"}
    return {"$schema": "http://json-schema.org/draft-07/schema#", "definitions": defs}


INPUT_EXPECT = {"input.json": "input.rs", "service.schema.json": "service.schema.rs", "api-2024.01.15.json": "api-2024.01.15.rs",
                "noext": "noext.rs", "schema.yaml": "schema.rs", "sub/dir.d/in.v2.json": "sub/dir.d/in.v2.rs", "UPPER.JSON": "UPPER.rs"}
INPUT_NAMES = list(INPUT_EXPECT)
GRID = [(v, pol) for v in ("1.2.3", "2.0.0", "*", "!") for pol in (None, "Generate", "Allow", "Deny")]


def gen_options(r, front, grid=None):
    """Abstract options + their rendering for the builder (vgen settings), the CLI (argv) and the macro (tokens).
    grid = (crate version, unknown-crate policy): the first 16 cases of each front end cover the whole product."""
    o = {}
    o["struct_builder"] = r.random() < 0.5
    # path derives only through the CLI: the macro stringifies paths with spaces, which changes their sort
    # position in the derive list (cosmetic; not judged)
    o["derives"] = r.choice([[], ["PartialEq"], ["PartialEq", "Eq"]] + ([["::std::cmp::PartialEq", "Eq"]] if front == "cli" else []))
    o["map_type"] = r.choice([None, None, "::std::collections::BTreeMap", "::vrt::support::VMap"])
    ext = r.choice([None, "ext-crate9", "h2", "my_crate"])
    o["ext"] = ext
    o["crates"] = []
    if ext and r.random() < 0.85:
        vers = r.choice(["1.2.3", "1.9.0", "2.0.0", "*", "!"])
        rename = r.choice([None, None, "renamed2", "new-name"])
        o["crates"].append({"name": ext, "version": vers, "rename": rename})
    if r.random() < 0.3:
        o["crates"].append({"name": "unrelated-crate", "version": "0.1.0", "rename": None})
    o["unknown_crates"] = r.choice([None, "Generate", "Allow", "Deny"])
    if grid is not None:
        o["ext"] = ext = ext or "ext-crate9"
        o["crates"] = [{"name": ext, "version": grid[0], "rename": r.choice([None, "renamed2"])}]
        o["unknown_crates"] = grid[1]
    o["patches"], o["replacements"], o["conversions"] = [], [], []
    if front == "macro":
        if r.random() < 0.5:
            o["patches"].append({"name": "Thing", "rename": r.choice([None, "RenamedThing"]),
                                 "derives": []})
        if r.random() < 0.4:
            o["replacements"].append({"name": "Kind", "type": "::vrt::support::ReplStr",
                                      "listed": r.choice([[], ["Display"], ["Default", "?FromStr"], ["?Display", "?FromStr"]])})
        if r.random() < 0.4:
            o["conversions"].append({"schema": {"type": "integer", "minimum": 7.0}, "type": "::vrt::support::ReplStr", "listed": []})
    return o


def impls_of(listed):
    s = {"FromStr", "Display"}
    for x in listed:
        if x.startswith("?"):
            s.discard(x[1:])
        else:
            s.add(x)
    return sorted(s)


def builder_settings(o, cli_default_builder=False):
    st = {"struct_builder": o["struct_builder"]}
    if o["derives"]:
        st["derives"] = list(o["derives"])
    if o["map_type"]:
        st["map_type"] = o["map_type"]
    if o["crates"]:
        st["crates"] = [{"name": c["name"], "version": c["version"], **({"rename": c["rename"]} if c["rename"] else {})}
                        for c in o["crates"]]
    if o["unknown_crates"]:
        st["unknown_crates"] = o["unknown_crates"]
    if o["patches"]:
        st["patches"] = [{"name": p["name"], **({"rename": p["rename"]} if p["rename"] else {}), "derives": p["derives"]}
                         for p in o["patches"]]
    if o["replacements"]:
        st["replacements"] = [{"name": x["name"], "type": x["type"], "impls": impls_of(x["listed"])} for x in o["replacements"]]
    if o["conversions"]:
        st["conversions"] = [{"schema": x["schema"], "type": x["type"], "impls": impls_of(x["listed"])} for x in o["conversions"]]
    return st


def cli_args(o, input_path, out):
    a = ["typify", input_path]
    a.append("--builder" if o["struct_builder"] else "--no-builder")
    for d in o["derives"]:
        a += ["--additional-derive", d]
    if o["map_type"]:
        a += ["--map-type", o["map_type"]]
    for c in o["crates"]:
        spec = "%s@%s" % (c["name"], c["version"])
        if c["rename"]:
            spec = c["rename"] + "=" + spec
        a += ["--crate", spec]
    if o["unknown_crates"]:
        a += ["--unknown-crates", o["unknown_crates"].lower()]
    if out is not None:
        a += ["-o", out]
    return a


def tok_json(v):
    """serde_tokenstream rendering of a JSON value."""
    if isinstance(v, dict):
        return "{ " + ", ".join("%s = %s" % (k if re.match(r"^[A-Za-z_][A-Za-z0-9_]*$", k) else json.dumps(k), tok_json(x))
                                for k, x in v.items()) + " }"
    if isinstance(v, list):
        return "[" + ", ".join(tok_json(x) for x in v) + "]"
    if isinstance(v, bool):
        return "true" if v else "false"
    if isinstance(v, float):
        return repr(v)
    return json.dumps(v)


def macro_invocation(o, schema_rel):
    parts = ['schema = "%s"' % schema_rel]
    if o["derives"]:
        parts.append("derives = [%s]" % ", ".join(o["derives"]))
    parts.append("struct_builder = %s" % ("true" if o["struct_builder"] else "false"))
    if o["unknown_crates"]:
        parts.append("unknown_crates = %s" % o["unknown_crates"])
    if o["crates"]:
        items = []
        for c in o["crates"]:
            if c["rename"]:
                items.append('"%s" = "%s@%s"' % (c["rename"], c["name"], c["version"]))
            else:
                items.append('"%s" = "%s"' % (c["name"], c["version"]))
        parts.append("crates = { %s }" % ", ".join(items))
    if o["map_type"]:
        parts.append('map_type = "%s"' % o["map_type"])
    if o["patches"]:
        items = []
        for p in o["patches"]:
            inner = []
            if p["rename"]:
                inner.append('rename = "%s"' % p["rename"])
            if p["derives"]:
                inner.append("derives = [%s]" % ", ".join(p["derives"]))
            items.append("%s = { %s }" % (p["name"], ", ".join(inner)))
        parts.append("patch = { %s }" % ", ".join(items))
    if o["replacements"]:
        items = []
        for x in o["replacements"]:
            t = x["type"].lstrip(":")
            items.append("%s = %s%s" % (x["name"], "::" + t, (": " + " + ".join(x["listed"])) if x["listed"] else ""))
        parts.append("replace = { %s }" % ", ".join(items))
    if o["conversions"]:
        items = []
        for x in o["conversions"]:
            t = x["type"].lstrip(":")
            items.append("%s = %s%s" % (tok_json(x["schema"]), "::" + t, (": " + " + ".join(x["listed"])) if x["listed"] else ""))
        parts.append("convert = { %s }" % ", ".join(items))
    return "typify::import_types!(\n    %s\n);" % ",\n    ".join(parts)


WRITE_FLAGS = re.compile(r"O_WRONLY|O_RDWR|O_CREAT|O_TRUNC|O_APPEND")


def parse_strace(path, rundir):
    """Successful creations / opens-for-writing / renames / unlinks of files under rundir. Relative paths are
    resolved against the directory strace decodes for AT_FDCWD (-y); others cannot be attributed and are ignored
    (the directory diff is the decider, this is the second observer for transient files)."""
    touched = []
    rd = os.path.realpath(rundir)
    for line in open(path, errors="replace"):
        m = re.search(r'\b(openat|creat|renameat|renameat2|unlinkat|mkdirat|open|rename|unlink|mkdir)\((.*)$', line)
        if not m:
            continue
        call, rest = m.group(1), m.group(2)
        if call in ("openat", "open") and not WRITE_FLAGS.search(rest):
            continue
        base = None
        mb = re.match(r'AT_FDCWD<([^>]*)>', rest)
        if mb:
            base = mb.group(1)
        paths = re.findall(r'"((?:[^"\\]|\\.)*)"', rest)
        for p in paths[:2]:
            if os.path.isabs(p):
                ap = p
            elif base is not None:
                ap = os.path.join(base, p)
            else:
                continue
            ap = os.path.normpath(ap)
            if ap.startswith(rd + os.sep) and os.path.basename(ap) != "trace.txt":
                touched.append((call, os.path.relpath(ap, rd)))
    return touched


def dir_state(d):
    out = {}
    for root, dirs, files in os.walk(d):
        for fn in files:
            if fn == "trace.txt":
                continue
            p = os.path.join(root, fn)
            out[os.path.relpath(p, d)] = util.sha(open(p, "rb").read())
    return out


def macro_rebuilds(wd, mods, K):
    """Expand the same import_types! invocations in K fresh rustc processes.
    mods: {module name: (options, document)}. Returns a list (one entry per build) of {module: token text}."""
    mdir = os.path.join(wd, "macrocrate")
    shutil.rmtree(mdir, ignore_errors=True)
    os.makedirs(os.path.join(mdir, "src"))
    os.makedirs(os.path.join(mdir, "schemas"))
    adir = os.path.join(wd, "aliases")
    shutil.rmtree(adir, ignore_errors=True)
    dep_lines = []
    for a in CRATE_ALIASES:
        if a == "vrt":
            continue
        ad = os.path.join(adir, a)
        os.makedirs(os.path.join(ad, "src"))
        open(os.path.join(ad, "Cargo.toml"), "w").write(
            '[package]\nname = "%s"\nversion = "0.0.0"\nedition = "2021"\npublish = false\n\n[dependencies]\n'
            'vrt = { path = "%s" }\n' % (a, VRT))
        open(os.path.join(ad, "src", "lib.rs"), "w").write("pub mod support { pub use vrt::support::*; }\n")
        dep_lines.append('"%s" = { path = "%s" }' % (a, ad))
    open(os.path.join(mdir, "Cargo.toml"), "w").write("""[package]
name = "c12macro"
version = "0.0.0"
edition = "2021"
publish = false

[workspace]

[dependencies]
typify = { path = "%s/typify" }
serde = { version = "1.0.219", features = ["derive"] }
serde_json = "1.0.140"
vrt = { path = "%s" }
%s
""" % (util.REPO, VRT, "\n".join(dep_lines)))
    shutil.copy(os.path.join(util.REPO, "Cargo.lock"), os.path.join(mdir, "Cargo.lock"))
    shutil.copy(os.path.join(util.REPO, "rust-toolchain.toml"), os.path.join(mdir, "rust-toolchain.toml"))
    lib = ["#![allow(warnings)]"]
    for name, (o, doc) in mods.items():
        json.dump(doc, open(os.path.join(mdir, "schemas", name + ".json"), "w"))
        lib.append("pub mod %s {\n%s\n}" % (name, macro_invocation(o, "schemas/%s.json" % name)))
    builds = []
    for k in range(K):
        # rewriting the source makes cargo start a new rustc (and with it a new proc-macro process state)
        open(os.path.join(mdir, "src", "lib.rs"), "w").write("\n".join(lib) + "\n// build %d\n" % k)
        log = os.path.join(wd, "macro.hooks.%d.log" % k)
        if os.path.exists(log):
            os.remove(log)
        env = util.cargo_env({"CARGO_TARGET_DIR": TARGET_MACRO, "TYPIFY_VERIF_LOG": log})
        rc, so, se, dt = util.run(["cargo", "check", "--offline", "-q", "--message-format=json"], cwd=mdir, env=env, timeout=3000)
        streams = {}
        if os.path.exists(log):
            for line in open(log):
                try:
                    ev = json.loads(line)
                except Exception:
                    continue
                if ev.get("k") == "macro_stream":
                    streams[os.path.basename(ev["d"]["schema"])[:-5]] = ev["d"]["tokens"]
        errs = []
        for line in so.splitlines():
            if line.startswith("{") and '"compiler-message"' in line:
                try:
                    mm = json.loads(line)
                except Exception:
                    continue
                if mm["message"].get("level") == "error":
                    errs.append((mm["message"].get("code") or {}).get("code") or mm["message"].get("message", "")[:80])
        builds.append({"rc": rc, "streams": streams, "errors": sorted(set(map(str, errs)))})
    return builds


def item_map_from_facts(facts):
    return c16.item_map({"facts": facts})


def run(tier, seed, replay=None):
    rep = util.Report(PROP, tier, seed)
    rep.rule = ("cases = small documents (optionally with an x-rust-type definition) x option assignments over derives, builder "
                "flag, map type, crates (names with digits/hyphens/underscores, *, !, versions, renames), unknown-crate policy and, "
                "for the macro, patches / replacements (Type: Trait + ?Trait) / conversions. Each case is run through the builder "
                "(vgen), the real cargo-typify binary under strace, and the real import_types! macro inside rustc (hook log); "
                "token-for-token item comparison; CLI file effects from the syscall trace incl. failing inputs. Non-trivial: "
                "every case with >=1 non-default option; distinct by option assignment.")
    rep.assumptions = [
        "CLI output is compared after syn::parse_file (formatting is not significant); its inner #![allow] attributes are ignored",
        "the macro's generator output is read from the macro_stream hook event emitted inside rustc",
        "documented option meaning: CLI --builder/--no-builder (builder is the CLI default), rename=crate@version; macro "
        "crates = { \"rename\" = \"crate@version\" }, Type: Trait + ?Trait adds/removes from the default {FromStr, Display}",
    ]
    build_cli()
    n_cli = 24 if tier == "quick" else 300
    n_mac = 16 if tier == "quick" else 200
    wd = util.workdir(PROP, "fe")
    shutil.rmtree(wd, ignore_errors=True)
    os.makedirs(wd)
    cases, meta = [], {}
    # ---------------- CLI cases
    for i in range(n_cli):
        r = util.rng(seed, PROP, "cli", i)
        o = gen_options(r, "cli", grid=GRID[i] if i < len(GRID) else None)
        doc = gen_doc(r, o["ext"])
        cid = "cli%04d" % i
        cases.append({"id": cid, "settings": builder_settings(o), "history": [{"op": "root", "schema": doc}],
                      "opts": {"has_impl": False, "code": False, "hooks": True}})
        meta[cid] = {"front": "cli", "o": o, "doc": doc, "out_mode": ["default", "file", "stdout"][i % 3]}
    for i in range(n_mac):
        r = util.rng(seed, PROP, "mac", i)
        o = gen_options(r, "macro", grid=GRID[i] if i < len(GRID) else None)
        doc = gen_doc(r, o["ext"])
        cid = "mac%04d" % i
        cases.append({"id": cid, "settings": builder_settings(o), "history": [{"op": "root", "schema": doc}],
                      "opts": {"has_impl": False, "code": False, "hooks": True, "tokens": True}})
        meta[cid] = {"front": "macro", "o": o, "doc": doc}
    run_ = pipeline.Run(PROP, "builder")
    results = run_.vgen(cases)
    by_case = {c["id"]: c for c in cases}
    # ---------------- run the CLI
    for cid, m in meta.items():
        if m["front"] != "cli":
            continue
        rep.evaluations += 1
        res = results[cid]
        d = os.path.join(wd, cid)
        os.makedirs(d)
        # input file names with one, several and no dots, other extensions, a dot-file and a sub-directory: the default
        # output is "the input path with extension .rs"
        in_name = INPUT_NAMES[(int(cid[3:]) // 3) % len(INPUT_NAMES)] if m["out_mode"] == "default" else "input.json"
        in_stem_rs = INPUT_EXPECT[in_name]
        os.makedirs(os.path.dirname(os.path.join(d, in_name)), exist_ok=True)
        with open(os.path.join(d, in_name), "w") as f:
            json.dump(m["doc"], f, indent=r.choice([None, 1, 2]) if False else 1)
        if in_name != "input.json":
            # a neighbour that a wrong default path would clobber
            open(os.path.join(d, "service.rs"), "w").write("// neighbour\n")
        out = {"default": None, "file": "sub_out.rs", "stdout": "-"}[m["out_mode"]]
        argv = cli_args(m["o"], in_name, out)
        env = dict(os.environ)
        env["TYPIFY_VERIF_LOG"] = os.path.join(d, "hooks.log.outside")   # keep the hook log out of the run dir
        env["TYPIFY_VERIF_LOG"] = os.path.join(wd, cid + ".hooks.log")
        rc, so, se, dt = util.run(["strace", "-f", "-z", "-y", "-o", os.path.join(d, "trace.txt"), "-e",
                                   "trace=openat,open,creat,rename,renameat,renameat2,unlink,unlinkat,mkdir,mkdirat",
                                   CLI_BIN] + argv, cwd=d, env=env, timeout=300)
        case = by_case[cid]
        det = {"argv": argv, "rc": rc, "stderr": se[-600:]}
        b_ok = vgen.ingest_status(res) == "ok" and res.get("render") == "ok"
        touched = parse_strace(os.path.join(d, "trace.txt"), d)
        after = dir_state(d)
        writes = sorted(set(k for k in after if k not in ("input.json", in_name)) | {p for c, p in touched if p not in ("input.json", in_name)})
        if in_name != "input.json":
            if open(os.path.join(d, "service.rs")).read() == "// neighbour\n":
                writes = [w_ for w_ in writes if w_ != "service.rs"]
        if rc != 0:
            if b_ok:
                rep.violation("cli_fails_where_builder_succeeds", common.site_of(se[-200:]), det, case=case, options=m["o"])
            else:
                rep.count("cli_and_builder_reject")
                if writes:
                    rep.violation("cli_writes_on_failure", ",".join(writes), dict(det, touched=touched), case=case, options=m["o"])
            continue
        if not b_ok:
            rep.violation("cli_succeeds_where_builder_fails", "-", det, case=case, options=m["o"])
            continue
        expect = {"default": [in_stem_rs], "file": ["sub_out.rs"], "stdout": []}[m["out_mode"]]
        if writes != expect:
            rep.violation("cli_output_path", m["out_mode"], dict(det, expected=expect, written=writes, touched=touched),
                          case=case, options=m["o"])
            continue
        if m["out_mode"] == "stdout":
            text = so
        else:
            text = open(os.path.join(d, expect[0])).read()
        src = os.path.join(d, "cli_out_for_facts.rs")
        with open(src, "w") as f:
            f.write(text)
        fj = os.path.join(wd, cid + ".facts.json")
        util.run([vgen.BIN, "--facts", src, fj], timeout=120)
        os.remove(src)
        cf = json.load(open(fj))
        if cf.get("syn") != "ok":
            rep.violation("cli_output_does_not_parse", common.site_of(cf.get("syn_msg")), det, case=case, options=m["o"])
            continue
        a, b = item_map_from_facts(cf["facts"]), c16.item_map(res)
        if a != b:
            diff = sorted(str(k) for k in set(a) | set(b) if a.get(k) != b.get(k))[:8]
            rep.violation("cli_items_differ_from_builder", opt_site(m["o"]), dict(det, differing=diff), case=case, options=m["o"])
            continue
        # settings as they reached the generator (hook `new` event of the CLI process vs of the builder run)
        cli_new = first_new(os.path.join(wd, cid + ".hooks.log"))
        b_new = next((h["d"] for h in res.get("hooks") or [] if h.get("k") == "new"), None)
        if cli_new is not None and b_new is not None and cli_new != b_new:
            rep.violation("cli_settings_differ", opt_site(m["o"]), dict(det, cli=cli_new, builder=b_new), case=case, options=m["o"])
            continue
        rep.count("cli_equal")
        rep.nontrivial.add(json.dumps(m["o"], sort_keys=True))
        if len(rep.samples) < 3:
            rep.sample({"front": "cli", "argv": argv, "items": len(a), "written": writes})
    # ---------------- CLI failure inputs and specifier acceptance
    fail_dir = os.path.join(wd, "failures")
    os.makedirs(fail_dir)
    good_doc = gen_doc(util.rng(seed, PROP, "gd"), None)
    bad_inputs = {
        "not_json": "{ this is not json",
        "conversion_fails": json.dumps({"definitions": {"A": {"type": "object", "properties": {"a-b": {"type": "string"},
                                                                                                   "a_b": {"type": "string"}}}}}),
        "bad_default": json.dumps({"definitions": {"A": {"type": "object", "properties": {"p": {"type": "string", "default": 5}}}}}),
    }
    k = 0
    for name, content in bad_inputs.items():
        for out_mode in ("default", "file"):
            k += 1
            d = os.path.join(fail_dir, "f%02d" % k)
            os.makedirs(d)
            open(os.path.join(d, "input.json"), "w").write(content)
            out = None if out_mode == "default" else "given.rs"
            target = "input.rs" if out_mode == "default" else "given.rs"
            open(os.path.join(d, target), "w").write("SENTINEL\n")
            argv = ["typify", "input.json"] + (["-o", out] if out else [])
            rc, so, se, dt = util.run(["strace", "-f", "-z", "-y", "-o", os.path.join(d, "trace.txt"), "-e",
                                       "trace=openat,open,creat,rename,renameat,renameat2,unlink,unlinkat,mkdir,mkdirat",
                                       CLI_BIN] + argv, cwd=d, timeout=300)
            rep.evaluations += 1
            touched = [t for t in parse_strace(os.path.join(d, "trace.txt"), d)]
            still = os.path.exists(os.path.join(d, target)) and open(os.path.join(d, target)).read() == "SENTINEL\n"
            listing = sorted(os.listdir(d))
            if rc == 0:
                rep.violation("cli_accepts_bad_input", name, {"argv": argv, "stdout": so[:200]}, case={"id": "fail_" + name})
            elif touched or not still or listing != sorted(["input.json", target, "trace.txt"]):
                rep.violation("cli_writes_on_failure", name, {"argv": argv, "touched": touched, "sentinel_intact": still,
                                                              "dir": listing}, case={"id": "fail_" + name})
            else:
                rep.count("cli_failure_writes_nothing")
                rep.nontrivial.add(("fail", name, out_mode))
    specs = ["serde@1.0.0", "h2@0.4.0", "base64@0.22.1", "my_crate@*", "my-crate@!", "x=h2@0.4.0", "b64=base64@0.22.1",
             "new-name=my_crate@1.2.3-alpha.1", "tokio1@1.0.0", "r2d2=r2d2@0.8.10"]
    d = os.path.join(fail_dir, "specs")
    os.makedirs(d)
    json.dump(good_doc, open(os.path.join(d, "input.json"), "w"))
    for sp in specs:
        rc, so, se, dt = util.run([CLI_BIN, "typify", "input.json", "-o", "-", "--crate", sp], cwd=d, timeout=300)
        rep.evaluations += 1
        if rc != 0:
            rep.violation("cli_rejects_valid_crate_spec", "digits" if re.search(r"\d", sp.split("@")[0]) else "other",
                          {"spec": sp, "stderr": se[-300:]}, case={"id": "spec_" + sp})
        else:
            rep.count("cli_spec_accepted")
            rep.nontrivial.add(("spec", sp))
    for sp in ["nover", "a b@1.0.0", "x@not-a-version", "=x@1.0.0x"]:
        rc, so, se, dt = util.run([CLI_BIN, "typify", "input.json", "-o", "-", "--crate", sp], cwd=d, timeout=300)
        rep.evaluations += 1
        if rc == 0:
            rep.violation("cli_accepts_invalid_crate_spec", "-", {"spec": sp}, case={"id": "spec_" + sp})
        else:
            rep.count("cli_bad_spec_rejected")
    # ---------------- macro crate
    mac_ids = [cid for cid in meta if meta[cid]["front"] == "macro"]
    mdir = os.path.join(wd, "macrocrate")
    os.makedirs(os.path.join(mdir, "src"))
    os.makedirs(os.path.join(mdir, "schemas"))
    # alias crates: packages with the names used in x-rust-type / rename options, re-exporting vrt::support
    adir = os.path.join(wd, "aliases")
    dep_lines = []
    for a in CRATE_ALIASES:
        if a == "vrt":
            continue
        ad = os.path.join(adir, a)
        os.makedirs(os.path.join(ad, "src"))
        open(os.path.join(ad, "Cargo.toml"), "w").write(
            '[package]\nname = "%s"\nversion = "0.0.0"\nedition = "2021"\npublish = false\n\n[dependencies]\n'
            'vrt = { path = "%s" }\n' % (a, VRT))
        open(os.path.join(ad, "src", "lib.rs"), "w").write("pub mod support { pub use vrt::support::*; }\n")
        dep_lines.append('"%s" = { path = "%s" }' % (a, ad))
    deps = "\n".join(dep_lines)
    open(os.path.join(mdir, "Cargo.toml"), "w").write("""[package]
name = "c15macro"
version = "0.0.0"
edition = "2021"
publish = false

[workspace]

[dependencies]
typify = { path = "%s/typify" }
serde = { version = "1.0.219", features = ["derive"] }
serde_json = "1.0.140"
vrt = { path = "%s" }
%s
""" % (util.REPO, VRT, deps))
    shutil.copy(os.path.join(util.REPO, "Cargo.lock"), os.path.join(mdir, "Cargo.lock"))
    shutil.copy(os.path.join(util.REPO, "rust-toolchain.toml"), os.path.join(mdir, "rust-toolchain.toml"))
    lib = ["#![allow(warnings)]"]
    for cid in mac_ids:
        m = meta[cid]
        json.dump(m["doc"], open(os.path.join(mdir, "schemas", cid + ".json"), "w"))
        lib.append("pub mod %s {\n%s\n}" % (cid, macro_invocation(m["o"], "schemas/%s.json" % cid)))
    # path-spelled derives through the macro (globally, in a patch, and in both): judged on "the expansion compiles and
    # carries the derive once" only, because the macro's path rendering changes the position of a derive in the list
    pd_mods = {}
    for j, (glob_d, patch_d) in enumerate([(["::std::cmp::PartialEq"], []), ([], ["::std::cmp::PartialEq"]),
                                           (["::std::cmp::PartialEq"], ["::std::cmp::PartialEq"]),
                                           (["std::cmp::PartialEq", "Eq"], ["std::cmp::PartialEq"]),
                                           (["PartialEq"], ["PartialEq", "Eq"])]):
        o_ = {"derives": glob_d, "struct_builder": j % 2 == 0, "unknown_crates": None, "crates": [], "map_type": None,
              "patches": [{"name": "Tagged", "rename": None, "derives": patch_d}] if patch_d else [], "replacements": [],
              "conversions": [], "ext": None}
        # (structs only: a data-less enum or string newtype already derives the comparison traits under their short names,
        # and a second spelling of the same trait is the caller's responsibility)
        doc_ = {"definitions": {"Other": {"type": "object", "properties": {"s": {"type": "string"}}},
                                "Tagged": {"type": "object", "properties": {"k": {"type": "string"}, "n": {"type": "integer"}}}}}
        name_ = "pd%02d" % j
        pd_mods[name_] = (o_, doc_)
        json.dump(doc_, open(os.path.join(mdir, "schemas", name_ + ".json"), "w"))
        lib.append("pub mod %s {\n%s\n}" % (name_, macro_invocation(o_, "schemas/%s.json" % name_)))
    open(os.path.join(mdir, "src", "lib.rs"), "w").write("\n".join(lib) + "\n")
    log = os.path.join(wd, "macro.hooks.log")
    env = util.cargo_env({"CARGO_TARGET_DIR": TARGET_MACRO, "TYPIFY_VERIF_LOG": log})
    rc, so, se, dt = util.run(["cargo", "check", "--offline", "-q", "--message-format=json"], cwd=mdir, env=env, timeout=3000)
    util.log("[C15] macro crate check rc=%s in %.1fs" % (rc, dt))
    if rc != 0:
        util.log(se[-1500:])
    macro_errs = []
    for line in so.splitlines():
        if line.startswith("{"):
            try:
                mm = json.loads(line)
            except Exception:
                continue
            if mm.get("reason") == "compiler-message" and mm["message"].get("level") == "error":
                macro_errs.append(mm["message"])
    streams = {}
    news = {}
    last_new = None
    if os.path.exists(log):
        for line in open(log):
            try:
                ev = json.loads(line)
            except Exception:
                continue
            if ev.get("k") == "new":
                last_new = ev["d"]
            elif ev.get("k") == "macro_stream":
                key = os.path.basename(ev["d"]["schema"])[:-5]
                streams[key] = ev["d"]["tokens"]
                news[key] = last_new
    for name_, (o_, doc_) in pd_mods.items():
        rep.evaluations += 1
        errs_ = [e for e in macro_errs if name_ in json.dumps(e.get("spans") or []) or name_ in (e.get("rendered") or "")]
        inv_ = macro_invocation(o_, "schemas/%s.json" % name_)
        case_ = {"id": name_, "settings": builder_settings(o_), "history": [{"op": "root", "schema": doc_}]}
        if errs_:
            rep.violation("macro_expansion_does_not_compile", common.site_of(errs_[0].get("message")),
                          {"invocation": inv_, "error": errs_[0].get("rendered", "")[:600]}, case=case_, options=o_)
        elif name_ not in streams:
            rep.violation("macro_fails_where_builder_succeeds", "no stream event", {"invocation": inv_}, case=case_, options=o_)
        else:
            rep.count("macro_path_derives_compile")
            rep.nontrivial.add("pd:" + name_)
    for cid in mac_ids:
        m = meta[cid]
        res = results[cid]
        case = by_case[cid]
        rep.evaluations += 1
        inv = macro_invocation(m["o"], "schemas/%s.json" % cid)
        b_ok = vgen.ingest_status(res) == "ok" and res.get("render") == "ok"
        errs = [e for e in macro_errs if any(cid in (s.get("text") and json.dumps(s) or json.dumps(s)) for s in e.get("spans") or [])
                or cid in (e.get("rendered") or "")]
        if cid not in streams:
            if b_ok:
                rep.violation("macro_fails_where_builder_succeeds", common.site_of((errs[0].get("message") if errs else "no stream event")),
                              {"invocation": inv, "errors": [e.get("rendered", "")[:400] for e in errs[:2]]}, case=case, options=m["o"])
            else:
                rep.count("macro_and_builder_reject")
            continue
        if not b_ok:
            rep.violation("macro_succeeds_where_builder_fails", "-", {"invocation": inv}, case=case, options=m["o"])
            continue
        # inside rustc proc_macro2 prints tokens with the compiler's spacing: compare after syn parsing, item by item
        src = os.path.join(wd, cid + ".macro.rs")
        open(src, "w").write(streams[cid])
        fj = os.path.join(wd, cid + ".macro.facts.json")
        util.run([vgen.BIN, "--facts", src, fj], timeout=120)
        mf = json.load(open(fj))
        a, b = item_map_from_facts(mf.get("facts") or []), c16.item_map(res)
        if mf.get("syn") != "ok" or a != b:
            diff = sorted(str(k) for k in set(a) | set(b) if a.get(k) != b.get(k))[:8]
            rep.violation("macro_items_differ_from_builder", opt_site(m["o"]),
                          {"invocation": inv, "differing": diff, "macro_settings": news.get(cid),
                           "builder_settings": next((h["d"] for h in res.get("hooks") or [] if h.get("k") == "new"), None)},
                          case=case, options=m["o"])
            continue
        if errs:
            rep.violation("macro_expansion_does_not_compile", common.site_of(errs[0].get("message")),
                          {"invocation": inv, "error": errs[0].get("rendered", "")[:600]}, case=case, options=m["o"])
            continue
        rep.count("macro_equal")
        rep.nontrivial.add(json.dumps(m["o"], sort_keys=True))
        if len(rep.samples) < 5:
            rep.sample({"front": "macro", "invocation": inv, "tokens_len": len(streams[cid])})
    rep.notes["macro_crate"] = {"cases": len(mac_ids), "rc": rc, "errors": len(macro_errs), "stream_events": len(streams)}
    if mac_ids and not streams:
        rep.inconclusive.append("no macro_stream hook event observed (macro crate did not expand)")
    return rep.finish(util.Findings(PROP, dict(common.PREDS)), min_nontrivial=15)


def opt_site(o):
    keys = [k for k in ("derives", "map_type", "crates", "unknown_crates", "patches", "replacements", "conversions") if o.get(k)]
    return "+".join(keys) or "defaults"


def first_new(path):
    if not os.path.exists(path):
        return None
    for line in open(path):
        try:
            ev = json.loads(line)
        except Exception:
            continue
        if ev.get("k") == "new":
            return ev["d"]
    return None

"""C08 — arbitrary JSON names map to valid identifiers and exact wire names."""
import itertools
import json

from vlib import pipeline, util, vgen
from vlib.driver import norm
from . import common, workloads

PROP = "C08"

ALPHABET = ["a", "B", "7", "_", "-", "'", " ", "$", ".", "é", "́", "😀"]

STRICT = ["as", "break", "const", "continue", "crate", "else", "enum", "extern", "false", "fn", "for", "if", "impl",
          "in", "let", "loop", "match", "mod", "move", "mut", "pub", "ref", "return", "self", "Self", "static", "struct",
          "super", "trait", "true", "type", "unsafe", "use", "where", "while", "async", "await", "dyn"]
RESERVED = ["abstract", "become", "box", "do", "final", "macro", "override", "priv", "typeof", "unsized", "virtual",
            "yield", "try", "gen"]
WEAK = ["union", "static", "macro_rules", "raw", "safe", "default", "auto"]

PAIRS = [("foo-bar", "foo_bar"), ("a", "A"), ("self", "Self"), ("type", "type_"), ("fooBar", "foo_bar"),
         ("foo bar", "foo-bar"), ("x1", "1"), ("a.b", "a-b"), ("_", "__"), ("-", "--"), ("A", "a_"), ("ab", "aB"),
         ("FooBar", "foo_bar"), ("é", "é"), ("match", "match_"), ("$ref", "ref"), ("", "_"), ("1", "2"),
         ("crate", "Crate"), ("a-", "a"), ("ns:a", "ns.a"), ("+1", "-1"), ("ok", "OK")]


def names(tier, seed):
    out = [""]
    maxlen = 3 if tier == "quick" else 4
    for n in range(1, maxlen + 1):
        for t in itertools.product(ALPHABET, repeat=n):
            out.append("".join(t))
    kws = []
    for k in STRICT + RESERVED + WEAK:
        kws += [k, k.upper(), k.capitalize(), k + "_", "_" + k, k + "-" + k]
    r = util.rng(seed, PROP, "long")
    pool = ALPHABET + ["x", "Y", "0", "ß", "中", "Ω", "‍", "/", "#", "@", "\\", "\"", "\t"]
    longs = []
    for i in range(300 if tier == "quick" else 3000):
        n = r.randrange(5, 24)
        longs.append("".join(r.choice(pool) for _ in range(n)))
    return out, kws, longs


def doc_prop(batch):
    return {"definitions": {"T%d" % i: {"type": "object", "properties": {nm: {"type": "integer"}}, "required": [nm]}
                            for i, nm in enumerate(batch)}}


def doc_enum(batch):
    return {"definitions": {"T%d" % i: {"type": "string", "enum": [nm, "zz_filler"] if nm != "zz_filler" else [nm]}
                            for i, nm in enumerate(batch)}}


PAYLOADS = [
    {"type": "integer"},
    {"type": "array", "items": [{"type": "integer"}], "minItems": 1, "maxItems": 1},
    {"type": "array", "items": [{"type": "integer"}, {"type": "string"}], "minItems": 2, "maxItems": 2},
    {"type": "object", "properties": {"x": {"type": "integer"}}, "required": ["x"]},
    {"type": "array", "items": {"type": "string"}},
]
PAYLOAD_VALUES = [5, [5], [5, "s"], {"x": 5}, ["a"]]


def doc_variant(batch):
    """externally tagged union: the name is the key of a variant WITH data (five payload shapes in rotation)"""
    defs = {}
    for i, nm in enumerate(batch):
        other = "zz_filler" if nm != "zz_filler" else "zz_filler2"
        defs["T%d" % i] = {"oneOf": [
            {"type": "object", "required": [nm], "properties": {nm: PAYLOADS[i % len(PAYLOADS)]}, "additionalProperties": False},
            {"type": "object", "required": [other], "properties": {other: {"type": "boolean"}}, "additionalProperties": False}]}
    return {"definitions": defs}


def doc_def(nm):
    return {"definitions": {nm: {"type": "object", "properties": {"v": {"type": "integer"}}, "required": ["v"]},
                            "UserOfIt": {"type": "object", "properties": {"f": {"$ref": "#/definitions/" + nm.replace("~", "~0").replace("/", "~1")}},
                                         "required": ["f"]}}}


def doc_pair(kind, a, b):
    if kind == "prop":
        return {"definitions": {"T": {"type": "object", "properties": {a: {"type": "integer"}, b: {"type": "string"}},
                                      "required": [a, b]}}}
    if kind == "enum":
        return {"definitions": {"T": {"type": "string", "enum": [a, b]}}}
    return {"definitions": {a: {"type": "object", "properties": {"v": {"type": "integer"}}},
                            b: {"type": "object", "properties": {"w": {"type": "string"}}}}}


def eff_name(field_or_variant):
    s = field_or_variant.get("serde") or {}
    r = s.get("rename")
    if isinstance(r, str):
        return r
    return field_or_variant.get("ident")


def run(tier, seed, replay=None):
    rep = util.Report(PROP, tier, seed)
    base, kws, longs = names(tier, seed)
    rep.exhaustive = True
    rep.notes["exhaustive_space"] = "all strings of length <= %d over the 12-symbol alphabet (%d strings)" % (
        3 if tier == "quick" else 4, len(base))
    rep.rule = ("every name is used as a property name, as an enum value and as a definition key (alone), and the pair pool "
                "in one struct / one enum / two definitions; checks on syn facts of the output: idents valid (file parses), "
                "distinct per scope, effective serde name == JSON name; behavioural round trip on a compiled sample. "
                "Non-trivial: name is not already a plain snake/Pascal identifier; distinct by (use, name).")
    rep.assumptions = [
        "a rejection (Err or panic at ingest) satisfies the property",
        "syn::parse_file is the judge of identifier validity; serde rename attribute = wire name",
    ]
    allnames = base + kws + longs
    cases, meta = [], {}
    B = 40

    def add(cid, doc, kind, payload, settings=None, **opts):
        o = {"has_impl": False, "code": False, "hooks": False}
        o.update(opts)
        cases.append({"id": cid, "settings": settings or {}, "history": [{"op": "root", "schema": doc}], "opts": o})
        meta[cid] = {"kind": kind, "names": payload}

    # names that meet identifiers typify synthesises itself: the flattened `extra` map of a typed
    # additionalProperties, builder / conversion method names, generic parameter names
    synth = ["extra", "Extra", "-extra", "EXTRA", "extra_", "build", "default", "try_from", "from", "new", "clone",
             "value", "error", "T", "F", "builder", "defaults", "subtype_0", "Self", "into"]
    fillers = ["alpha", "zeta", "f0", "m_id"]
    k_ = 0
    for nm in synth:
        for extra_ in (None, {"type": "string"}, {"type": "integer"}):
            for fs in ([], fillers[:2], fillers[1:]):
                ns = [nm] + fs
                t = {"type": "object", "properties": {n_: {"type": "integer"} for n_ in ns}, "required": ns[:1]}
                if extra_:
                    t["additionalProperties"] = extra_
                add("s%04d" % k_, {"definitions": {"T": t}}, "synth", ns, settings={"struct_builder": bool(k_ % 2)})
                k_ += 1

    # variant names typify derives by stripping a shared prefix from definition names / titles: the remainder may be a keyword
    for j, kw in enumerate(["Self", "self", "Type", "type", "Match", "Crate", "Super", "Fn", "Mod", "Box", "Option", "Vec", "1st", ""]):
        for via in ("ref", "title"):
            a_, b_ = "Link" + (kw[:1].upper() + kw[1:] if kw else ""), "LinkRelated"
            if via == "ref":
                defs_ = {a_ or "Link0": {"type": "object", "properties": {"href": {"type": "string"}}, "required": ["href"]},
                         b_: {"type": "object", "properties": {"id": {"type": "integer"}}, "required": ["id"]},
                         "Link": {"oneOf": [{"$ref": "#/definitions/" + (a_ or "Link0")}, {"$ref": "#/definitions/" + b_}]}}
            else:
                defs_ = {"Link": {"oneOf": [{"title": "target " + kw, "type": "object", "properties": {"href": {"type": "string"}}, "required": ["href"]},
                                            {"title": "target other", "type": "object", "properties": {"id": {"type": "integer"}}, "required": ["id"]}]}}
            add("u%02d_%s" % (j, via), {"definitions": defs_}, "union_prefix", [kw])
    for bi in range(0, len(allnames), B):
        batch = allnames[bi:bi + B]
        add("p%05d" % (bi // B), doc_prop(batch), "prop", batch)
        add("e%05d" % (bi // B), doc_enum(batch), "enum", batch)
        add("v%05d" % (bi // B), doc_variant(batch), "variant", batch)
    for i, nm in enumerate(allnames):
        add("d%06d" % i, doc_def(nm), "def", [nm])
    for i, (a, b) in enumerate(PAIRS):
        for kind in ("prop", "enum", "def"):
            if kind == "def" and a == b:
                continue
            add("x%s%03d" % (kind[0], i), doc_pair(kind, a, b), "pair_" + kind, [a, b])
    if replay:
        data = json.load(open(replay))
        f = data.get("first") or data
        cases = [f["case"]]
        meta = {f["case"]["id"]: f["meta"]}
    run_ = pipeline.Run(PROP, "main")
    results = run_.vgen(cases, shards=util.NCPU, timeout=3000)
    # batches that were rejected as a whole are re-run name by name
    retry = []
    for cid, res in list(results.items()):
        m = meta[cid]
        if m["kind"] in ("prop", "enum", "variant") and len(m["names"]) > 1 and vgen.ingest_status(res) != "ok":
            for k, nm in enumerate(m["names"]):
                c2 = "%s_%02d" % (cid, k)
                doc = {"prop": doc_prop, "enum": doc_enum, "variant": doc_variant}[m["kind"]]([nm])
                retry.append({"id": c2, "settings": {}, "history": [{"op": "root", "schema": doc}],
                              "opts": {"has_impl": False, "code": False, "hooks": False}})
                meta[c2] = {"kind": m["kind"], "names": [nm]}
            del results[cid]
    if retry:
        run2 = pipeline.Run(PROP, "retry")
        results.update(run2.vgen(retry, shards=util.NCPU, timeout=3000))
        cases += retry
    by_case = {c["id"]: c for c in cases}
    compile_pool = []
    synth_ok = []
    for cid, res in results.items():
        m = meta[cid]
        st = vgen.ingest_status(res)
        case = by_case[cid]
        rep.evaluations += len(m["names"])
        if st != "ok":
            rep.count("rejected_%s_%s" % (m["kind"], st), len(m["names"]))
            continue
        if res.get("render") != "ok":
            rep.violation("render_panic", common.site_of(res.get("render_msg")), {"names": m["names"][:5]},
                          case=case, meta=m)
            continue
        if res.get("syn") != "ok":
            rep.violation("invalid_identifier", "%s: %s" % (m["kind"], common.site_of(res.get("syn_msg"))),
                          {"names": m["names"][:8], "msg": res.get("syn_msg")}, case=case, meta=m)
            continue
        items = {}
        dup_items = []
        for f in res["facts"]:
            if f["kind"] in ("struct", "enum") and f["mod"] == "":
                if f["name"] in items:
                    dup_items.append(f["name"])
                items[f["name"]] = f
        if dup_items:
            rep.violation("duplicate_item", m["kind"], {"names": m["names"][:4], "items": dup_items}, case=case, meta=m)
            continue
        defs = res.get("defs") or {}
        ok = True
        if m["kind"] in ("prop", "enum", "variant"):
            for i, nm in enumerate(m["names"]):
                it = items.get(norm((defs.get("T%d" % i) or {}).get("name") or ""))
                if it is None:
                    rep.violation("type_missing", m["kind"], {"name": nm}, case=case, meta=m)
                    ok = False
                    break
                members = it.get("fields") if m["kind"] == "prop" else it.get("variants")
                effs = [eff_name(x) for x in members or []]
                if nm not in effs:
                    rep.violation("wire_name_lost", m["kind"], {"name": nm, "members": members}, case=case, meta=m)
                    ok = False
                    break
                idents = [x.get("ident") for x in members]
                if len(set(idents)) != len(idents):
                    rep.violation("duplicate_ident", m["kind"], {"name": nm, "idents": idents}, case=case, meta=m)
                    ok = False
                    break
                if not nm.isidentifier() or not nm.isascii():
                    rep.nontrivial.add((m["kind"], nm))
        elif m["kind"] == "union_prefix":
            it = items.get("Link")
            vs_ = (it or {}).get("variants") or []
            idents = [x.get("ident") for x in vs_]
            if it is None or it["kind"] != "enum":
                rep.count("union_prefix_not_an_enum")
            elif len(set(idents)) != len(idents):
                rep.violation("duplicate_ident", "union_prefix", {"names": m["names"], "idents": idents}, case=case, meta=m)
                ok = False
            else:
                rep.nontrivial.add(("union_prefix", m["names"][0], cid))
        elif m["kind"] == "synth":
            it = items.get("T")
            members = (it or {}).get("fields") or []
            idents = [x.get("ident") for x in members]
            effs = [eff_name(x) for x in members]
            if it is None:
                rep.violation("type_missing", "synth", {"names": m["names"]}, case=case, meta=m)
                ok = False
            elif len(set(idents)) != len(idents):
                rep.violation("duplicate_ident", "synth", {"names": m["names"], "idents": idents}, case=case, meta=m)
                ok = False
            elif any(n_ not in effs for n_ in m["names"]):
                rep.violation("wire_name_lost", "synth", {"names": m["names"], "effective": effs}, case=case, meta=m)
                ok = False
            else:
                rep.nontrivial.add(("synth", tuple(m["names"]), bool(case["settings"].get("struct_builder"))))
                synth_ok.append(cid)
        elif m["kind"] == "def":
            nm = m["names"][0]
            d = defs.get(nm) or {}
            if d.get("ident") is None or norm(d.get("name") or "") not in items:
                rep.violation("definition_unresolved", "def", {"name": nm, "def": d}, case=case, meta=m)
                ok = False
            else:
                user = items.get("UserOfIt")
                if user is None or norm(user["fields"][0]["ty"]) != norm(d["ident"]):
                    rep.violation("definition_use_mismatch", "def", {"name": nm, "user": user, "def": d}, case=case, meta=m)
                    ok = False
                elif not nm.isidentifier() or not nm.isascii():
                    rep.nontrivial.add(("def", nm))
        else:  # pairs
            a, b = m["names"]
            if m["kind"] == "pair_def":
                da, db = defs.get(a) or {}, defs.get(b) or {}
                if norm(da.get("name") or "") == norm(db.get("name") or ""):
                    rep.violation("definitions_share_ident", "pair_def", {"pair": [a, b], "ident": da.get("ident")},
                                  case=case, meta=m)
                    ok = False
            else:
                it = items.get("T")
                members = (it.get("fields") if m["kind"] == "pair_prop" else it.get("variants")) if it else None
                if not members:
                    rep.violation("type_missing", m["kind"], {"pair": [a, b]}, case=case, meta=m)
                    ok = False
                else:
                    idents = [x.get("ident") for x in members]
                    effs = sorted(eff_name(x) for x in members)
                    if len(set(idents)) != len(idents):
                        rep.violation("duplicate_ident", m["kind"], {"pair": [a, b], "idents": idents}, case=case, meta=m)
                        ok = False
                    elif effs != sorted({a, b}):
                        rep.violation("wire_name_lost", m["kind"], {"pair": [a, b], "effective": effs}, case=case, meta=m)
                        ok = False
            if ok:
                rep.nontrivial.add((m["kind"], a, b))
        if ok:
            rep.count("ok_" + m["kind"], len(m["names"]))
            if m["kind"] in ("prop", "enum", "variant", "pair_prop", "pair_enum"):
                compile_pool.append(cid)
            if len(rep.samples) < 4 and m["kind"] == "prop":
                it = items.get(norm((defs.get("T7") or {}).get("name") or ""))
                if it:
                    rep.sample({"json_name": m["names"][7], "field": it["fields"][0]})
    # behavioural sample: compile and round trip under the original names
    r = util.rng(seed, PROP, "compile")
    k = 40 if tier == "quick" else 250
    sample = sorted(r.sample(compile_pool, min(k, len(compile_pool))) + synth_ok)
    if sample:
        sub = [dict(by_case[c], opts={"has_impl": False}) for c in sample]
        run3 = pipeline.Run(PROP, "compile")
        res3 = run3.vgen(sub)
        run3.compile(want_builder=True, want_str=False, want_default=False)
        probes = []
        for cid in sample:
            m = meta[cid]
            for d in run3.s2.diags.get(cid, []):
                if d.get("file") == "gen":
                    rep.violation("rustc", "%s %s" % (m["kind"], d.get("code")), {"names": m["names"][:6], "msg": d["rendered"][:500]},
                                  case=by_case[cid], meta=m)
                    break
            if cid in run3.s2.removed:
                continue
            defs = res3[cid].get("defs") or {}
            if m["kind"] in ("prop", "enum", "variant"):
                for i, nm in enumerate(m["names"]):
                    t = norm((defs.get("T%d" % i) or {}).get("name") or "")
                    v = {nm: 5} if m["kind"] == "prop" else (nm if m["kind"] == "enum" else {nm: PAYLOAD_VALUES[i % len(PAYLOADS)]})
                    probes.append({"pid": len(probes), "case": cid, "ty": t, "op": "de", "input": json.dumps(v), "v": v})
            elif m["kind"] == "synth":
                v = {n_: 5 for n_ in m["names"]}
                probes.append({"pid": len(probes), "case": cid, "ty": "T", "op": "de", "input": json.dumps(v), "v": v})
            else:
                a, b = m["names"]
                v = {a: 5, b: "s"} if m["kind"] == "pair_prop" else a
                probes.append({"pid": len(probes), "case": cid, "ty": "T", "op": "de", "input": json.dumps(v), "v": v})
        outs, ab, to, sk = run3.probe([{k_: v for k_, v in p.items() if k_ != "v"} for p in probes])
        for p in probes:
            o = outs.get(p["pid"])
            if o is None:
                continue
            rep.count("roundtrip_probes")
            good = o.get("ok") and o.get("w") is not None and json.loads(o["w"]) == p["v"]
            if not good:
                rep.violation("name_roundtrip", common.site_of(o.get("err") or "value differs"),
                              {"input": p["input"], "out": o}, case=by_case[p["case"]], meta=meta[p["case"]])
        rep.notes["compiled_sample"] = {"cases": len(sample), "removed": len(run3.s2.removed)}
    return rep.finish(util.Findings(PROP, PREDS), min_nontrivial=300)


PREDS = {}

"""Workload builders: documents (grammar, fixture mutation, small-scope
enumeration, corpus), settings samplers and ingestion histories."""
import copy
import glob
import itertools
import json
import os
import re

from vlib import schemagen, util
from . import common

FIXTURE_GLOBS = ["/repo/typify/tests/schemas/*.json", "/repo/example.json"]


# ---------------------------------------------------------------- settings

def sample_settings(r, doc, rich=True):
    s = {}
    sig = []
    if r.random() < 0.4:
        s["struct_builder"] = True
        sig.append("builder")
    k = r.random()
    if k < 0.2:
        s["map_type"] = "::std::collections::BTreeMap"
        sig.append("btree")
    elif k < 0.35:
        s["map_type"] = "::vrt::support::VMap"
        sig.append("vmap")
    if r.random() < 0.3:
        # (also derives every type already carries: a request must never REMOVE one)
        s["derives"] = r.choice([["PartialEq"], ["PartialEq"], ["Clone"], ["Debug", "PartialEq"], ["Clone", "Debug"]])
        sig.append("derive")
    if r.random() < 0.2:
        s["type_mod"] = "types"
        sig.append("type_mod")
    defs = list((doc.get("definitions") or {}).keys())
    if rich and defs and r.random() < 0.2:
        tgt = r.choice(defs)
        p = {"name": sanitize_guess(tgt)}
        if r.random() < 0.7:
            p["rename"] = "Renamed" + sanitize_guess(tgt)
        if r.random() < 0.5 and scalar_only((doc.get("definitions") or {}).get(tgt)):
            p["derives"] = r.choice([["PartialEq"], ["Clone"], ["PartialEq", "Debug"]])
            if (doc.get("definitions") or {}).get(tgt, {}).get("type") == "string" and r.random() < 0.5:
                # string newtypes and data-less enums already order and hash: asking for part of that must not cost the rest
                p["derives"] = r.choice([["PartialOrd"], ["PartialEq"], ["PartialOrd", "PartialEq"], ["Hash"]])
        s["patches"] = [p]
        sig.append("patch")
    if rich and defs and r.random() < 0.15:
        tgt = r.choice(defs)
        s["replacements"] = [{"name": sanitize_guess(tgt), "type": "::vrt::support::Repl",
                              "impls": r.choice([[], ["Display"], ["Display", "FromStr"], ["Default"]])}]
        sig.append("replace")
    if rich and r.random() < 0.15:
        subs = [x for x in common.walk_doc(doc) if isinstance(x, dict) and x.get("type") in ("string", "integer", "number")
                and "$ref" not in x]
        if subs:
            tgt = copy.deepcopy(r.choice(subs))
            for k_ in ("description", "title", "default"):
                tgt.pop(k_, None)
            s["conversions"] = [{"schema": tgt, "type": "::vrt::support::Repl",
                                 "impls": r.choice([[], ["Display"], ["FromStr", "Display"]])}]
            sig.append("convert")
    if s.get("conversions") or s.get("replacements"):
        # the stand-in type ::vrt::support::Repl is neither ordered nor hashable: a patch that asks for those traits on a type
        # that may hold it is the caller's mistake, not typify's
        for p_ in s.get("patches", []):
            if p_.get("derives"):
                p_["derives"] = [d for d in p_["derives"] if d not in ("PartialOrd", "Hash", "Ord", "Eq")] or ["PartialEq"]
    return s, "+".join(sig) or "default"


def scalar_only(s):
    """True if a derive added to this definition alone cannot fail (no nested generated types)."""
    if not isinstance(s, dict):
        return False
    if s.get("type") == "string" and "enum" in s:
        return True
    if s.get("type") == "object" and isinstance(s.get("properties"), dict) and \
            not isinstance(s.get("additionalProperties"), dict):
        return all(isinstance(p, dict) and set(p.keys()) <= {"type", "format", "description"} and
                   p.get("type") in ("string", "integer", "boolean", "number") and
                   p.get("format") in (None, "int32", "int64", "uint8", "double")
                   for p in s["properties"].values())
    return False


def sanitize_guess(name):
    """Approximation of typify's Pascal-case type name for simple definition keys
    (only used to aim settings at a definition; a miss is harmless)."""
    parts = re.split(r"[^A-Za-z0-9]+", name)
    out = ""
    for p in parts:
        if not p:
            continue
        # split lower->Upper boundaries
        for q in re.findall(r"[A-Z]+(?![a-z])|[A-Z]?[a-z0-9]+|[A-Z]+", p):
            out += q[0].upper() + q[1:].lower()
    return out or name


# ---------------------------------------------------------------- histories

def ref_targets(s):
    out = set()
    for x in common.walk_doc(s):
        if isinstance(x, dict) and isinstance(x.get("$ref"), str):
            out.add(x["$ref"].rsplit("/", 1)[-1])
    return out


def components(defs):
    """Weakly connected components of the reference graph (a batch given to
    add_ref_types must be self-contained)."""
    names = list(defs.keys())
    parent = {n: n for n in names}

    def find(a):
        while parent[a] != a:
            parent[a] = parent[parent[a]]
            a = parent[a]
        return a

    for n in names:
        for t in ref_targets(defs[n]):
            if t in parent:
                parent[find(n)] = find(t)
    comps = {}
    for n in names:
        comps.setdefault(find(n), []).append(n)
    return list(comps.values())


def make_history(r, doc, kind):
    defs = doc.get("definitions") or {}
    root = {k: v for k, v in doc.items() if k != "definitions"}
    if kind == "root":
        return [{"op": "root", "schema": doc}]
    if kind == "refs_split":
        comps = components(defs)
        r.shuffle(comps)
        hist = []
        for c in comps:
            order = list(c)
            r.shuffle(order)
            hist.append({"op": "refs", "defs": [[n, defs[n]] for n in order]})
        if root:
            title = root.get("title")
            hist.append({"op": "type", "schema": root, "name": title})
        return hist
    if kind == "refs_then_types":
        order = list(defs.keys())
        r.shuffle(order)
        hist = [{"op": "refs", "defs": [[n, defs[n]] for n in order]}]
        for n in order[:3]:
            hist.append({"op": "type", "schema": {"$ref": "#/definitions/" + n}})
        # inline copies of ref-free definitions under a different name hint
        for n in order[:2]:
            if not ref_targets(defs[n]):
                hist.append({"op": "type", "schema": defs[n], "name": "Inline" + sanitize_guess(n)})
        if root:
            hist.append({"op": "type", "schema": root, "name": root.get("title")})
        return hist
    raise ValueError(kind)


# ---------------------------------------------------------------- fixture mutation

def load_fixtures():
    out = []
    for g in FIXTURE_GLOBS:
        for p in sorted(glob.glob(g)):
            try:
                out.append((os.path.basename(p)[:-5], json.load(open(p))))
            except Exception:
                pass
    return out


def mutate_fixture(r, doc):
    """One random operator applied to a fixture document."""
    doc = copy.deepcopy(doc)
    defs = doc.get("definitions") or doc.get("$defs") or {}
    objs = [x for x in common.walk_doc(doc) if isinstance(x, dict) and isinstance(x.get("properties"), dict)
            and x["properties"]]
    op = r.choice(["rename_prop", "add_default", "nullable", "toggle_ap", "toggle_required", "dup_def", "none"])
    label = op
    try:
        if op == "rename_prop" and objs:
            o = r.choice(objs)
            k = r.choice(sorted(o["properties"].keys()))
            new = r.choice([k.upper(), k + "-x", k.replace("_", "-"), "type", "self", "1" + k, k + " " + k, "ref"])
            if new not in o["properties"]:
                o["properties"][new] = o["properties"].pop(k)
                if isinstance(o.get("required"), list) and k in o["required"]:
                    o["required"] = [new if x == k else x for x in o["required"]]
        elif op == "add_default" and objs:
            o = r.choice(objs)
            k = r.choice(sorted(o["properties"].keys()))
            ps = o["properties"][k]
            if isinstance(ps, dict) and "$ref" not in ps:
                t = ps.get("type")
                dv = {"string": "dflt", "integer": 3, "number": 1.5, "boolean": True, "array": [], "object": {},
                      "null": None}.get(t if isinstance(t, str) else None, None)
                if "enum" in ps and ps["enum"]:
                    dv = ps["enum"][0]
                ps["default"] = dv
        elif op == "nullable" and objs:
            o = r.choice(objs)
            k = r.choice(sorted(o["properties"].keys()))
            o["properties"][k] = {"anyOf": [o["properties"][k], {"type": "null"}]}
        elif op == "toggle_ap" and objs:
            o = r.choice(objs)
            if o.get("additionalProperties") is False:
                o.pop("additionalProperties")
            else:
                o["additionalProperties"] = False
        elif op == "toggle_required" and objs:
            o = r.choice(objs)
            k = r.choice(sorted(o["properties"].keys()))
            req = o.setdefault("required", [])
            if k in req:
                req.remove(k)
            else:
                req.append(k)
        elif op == "dup_def" and defs:
            k = r.choice(sorted(defs.keys()))
            defs[k + "Copy"] = copy.deepcopy(defs[k])
    except Exception:
        label = "none"
    return doc, label


# ---------------------------------------------------------------- small scope

def small_scope_docs():
    """All compositions of constructors up to depth 2 with <=2 properties/branches
    (deterministic, enumerated; ~600 documents)."""
    leaves = [
        {"type": "boolean"}, {"type": "integer"}, {"type": "integer", "format": "uint8"}, {"type": "number"},
        {"type": "string"}, {"type": "string", "minLength": 1}, {"type": "string", "format": "uuid"},
        {"type": "null"}, {"type": "string", "enum": ["a", "b"]}, {"type": "integer", "enum": [1, 2]},
        {"$ref": "#/definitions/Leaf"}, {},
    ]
    wrappers = [
        ("vec", lambda a, b: {"type": "array", "items": a}),
        ("set", lambda a, b: {"type": "array", "items": a, "uniqueItems": True}),
        ("tuple1", lambda a, b: {"type": "array", "items": [a], "minItems": 1, "maxItems": 1}),
        ("tuple2", lambda a, b: {"type": "array", "items": [a, b], "minItems": 2, "maxItems": 2}),
        ("array2", lambda a, b: {"type": "array", "items": a, "minItems": 2, "maxItems": 2}),
        ("map", lambda a, b: {"type": "object", "additionalProperties": a}),
        ("struct_req", lambda a, b: {"type": "object", "properties": {"p": a, "q": b}, "required": ["p", "q"]}),
        ("struct_opt", lambda a, b: {"type": "object", "properties": {"p": a, "q": b}}),
        ("struct_closed", lambda a, b: {"type": "object", "properties": {"p": a}, "required": ["p"],
                                        "additionalProperties": False}),
        ("struct_extra", lambda a, b: {"type": "object", "properties": {"p": a}, "additionalProperties": b}),
        ("nullable_anyof", lambda a, b: {"anyOf": [a, {"type": "null"}]}),
        ("nullable_oneof", lambda a, b: {"oneOf": [a, {"type": "null"}]}),
        ("oneof2", lambda a, b: {"oneOf": [a, b]}),
        ("anyof2", lambda a, b: {"anyOf": [a, b]}),
        ("allof2", lambda a, b: {"allOf": [a, b]}),
        ("external", lambda a, b: {"oneOf": [{"type": "string", "enum": ["U"]},
                                             {"type": "object", "required": ["A"], "properties": {"A": a},
                                              "additionalProperties": False},
                                             {"type": "object", "required": ["B"], "properties": {"B": b},
                                              "additionalProperties": False}]}),
        ("internal", lambda a, b: {"oneOf": [{"type": "object", "required": ["t", "p"],
                                              "properties": {"t": {"type": "string", "enum": ["A"]}, "p": a}},
                                             {"type": "object", "required": ["t"],
                                              "properties": {"t": {"type": "string", "enum": ["B"]}, "q": b}}]}),
        ("adjacent", lambda a, b: {"oneOf": [{"type": "object", "required": ["t", "c"],
                                              "properties": {"t": {"type": "string", "enum": ["A"]}, "c": a}},
                                             {"type": "object", "required": ["t", "c"],
                                              "properties": {"t": {"type": "string", "enum": ["B"]}, "c": b}}]}),
    ]
    docs = []
    for wn, w in wrappers:
        for i, a in enumerate(leaves):
            for j, b in enumerate(leaves):
                if j not in (0, 4, 10) and wn not in ("tuple2", "oneof2", "anyof2", "allof2"):
                    continue  # b only matters for two-slot wrappers; keep three representatives elsewhere
                if wn in ("oneof2", "anyof2", "allof2", "tuple2") and j < i:
                    continue
                s = w(copy.deepcopy(a), copy.deepcopy(b))
                doc = {"definitions": {"Leaf": {"type": "object", "properties": {"v": {"type": "integer"}}},
                                       "Top": s}}
                docs.append(("small:%s:%d:%d" % (wn, i, j), doc))
    return docs


# ---------------------------------------------------------------- C01 cases

def corpus_cases(prop):
    out = []
    cdir = os.path.join(util.VERIF, "corpus", prop)
    if os.path.isdir(cdir):
        for fn in sorted(os.listdir(cdir)):
            if fn.endswith(".json"):
                try:
                    out.append((fn[:-5], json.load(open(os.path.join(cdir, fn)))))
                except Exception:
                    pass
    return out


def schemars_corpus():
    """Documents emitted by schemars for generated Rust type universes (written by
    the C04 origin stage into corpus/schemars)."""
    out = []
    cdir = os.path.join(util.VERIF, "corpus", "schemars")
    if os.path.isdir(cdir):
        for fn in sorted(os.listdir(cdir)):
            if fn.endswith(".json"):
                try:
                    out.append((fn[:-5], json.load(open(os.path.join(cdir, fn)))))
                except Exception:
                    pass
    return out


def c01_cases(seed, n, tier, replay=None):
    cases, meta = [], {}

    def add(cid, doc, source, r, supported=False, settings=None, hk=None):
        if settings is None:
            settings, sig = sample_settings(r, doc)
        else:
            sig = "given"
        kind = hk or r.choice(["root", "root", "refs_split", "refs_then_types"])
        try:
            hist = make_history(r, doc, kind)
        except Exception:
            kind, hist = "root", [{"op": "root", "schema": doc}]
        cases.append({"id": cid, "settings": settings, "history": hist,
                      "opts": {"has_impl": False, "hooks": True}})
        meta[cid] = {"source": source, "settings": settings, "settings_sig": sig, "history_kind": kind,
                     "supported": supported, "doc": doc}

    if replay:
        data = json.load(open(replay))
        c = (data.get("first") or data).get("case")
        cases.append(c)
        meta[c["id"]] = {"source": "replay", "settings": c.get("settings"), "settings_sig": "replay",
                         "history_kind": "replay", "supported": False, "doc": None}
        return cases, meta

    n_grammar = int(n * 0.55)
    for i in range(n_grammar):
        r = util.rng(seed, "C01", "g", i)
        g = schemagen.SchemaGen(r, profile="G", max_depth=3, avoid_known=False)
        doc = g.document()
        if r.random() < 0.4:
            doc = common.add_defaults(doc, r, p=0.5)   # default validation + rendering paths
        if r.random() < 0.3:
            names = list(doc["definitions"].keys())
            doc["title"] = "RootType"
            doc["type"] = "object"
            doc["properties"] = {"first": {"$ref": "#/definitions/" + names[0]}, "n": {"type": "integer"}}
        add("g%04d" % i, doc, "grammar", r)
    fixtures = load_fixtures()
    n_fix = int(n * 0.2)
    for i in range(n_fix):
        r = util.rng(seed, "C01", "f", i)
        name, doc = fixtures[i % len(fixtures)]
        doc2, label = mutate_fixture(r, doc)
        # fixture settings: plain sampler without targets (fixtures rely on specific names)
        settings, sig = sample_settings(r, doc2, rich=False)
        if name == "x-rust-type":
            settings["crates"] = [{"name": "std", "version": "1.0.0"}]
        add("f%04d" % i, doc2, "fixture:%s:%s" % (name, label), r, settings=settings)
        meta["f%04d" % i]["settings_sig"] = sig
    small = small_scope_docs()
    n_small = len(small) if tier == "thorough" else int(n * 0.25)
    r0 = util.rng(seed, "C01", "small")
    picks = small if n_small >= len(small) else r0.sample(small, n_small)
    for i, (label, doc) in enumerate(picks):
        r = util.rng(seed, "C01", "s", label)
        add("s%04d" % i, doc, label, r, settings={"struct_builder": r.random() < 0.5}, hk="root")
        meta["s%04d" % i]["settings_sig"] = "small"
    # a definition whose name equals the name typify derives for an inline type of ANOTHER definition
    inline_kinds = [
        ("prop_object", lambda: {"type": "object", "properties": {"bar": {"type": "object", "properties": {"x": {"type": "integer"}}}}}, "FooBar"),
        ("prop_enum", lambda: {"type": "object", "properties": {"bar": {"type": "string", "enum": ["p", "q"]}}}, "FooBar"),
        ("array_item", lambda: {"type": "array", "items": {"type": "object", "properties": {"x": {"type": "integer"}}}}, "FooItem"),
        ("map_value", lambda: {"type": "object", "additionalProperties": {"type": "string", "enum": ["p", "q"]}}, "FooValue"),
        ("nullable_inner", lambda: {"type": ["object", "null"], "properties": {"x": {"type": "integer"}}}, "FooInner"),
        ("variant", lambda: {"oneOf": [{"type": "object", "required": ["Bar"], "properties": {"Bar": {"type": "string", "enum": ["p"]}},
                                        "additionalProperties": False}]}, "FooBar"),
    ]
    k_ = 0
    for label, mk, derived in inline_kinds:
        for other in ({"type": "object", "properties": {"y": {"type": "string"}}}, {"type": "string", "enum": ["z"]}):
            for hk, order in (("root", None), ("refs_split", ["Foo", derived]), ("refs_split", [derived, "Foo"])):
                doc = {"definitions": {"Foo": mk(), derived: other}}
                cid = "n%03d" % k_
                k_ += 1
                r = util.rng(seed, "C01", "n", cid)
                hist = [{"op": "root", "schema": doc}] if order is None else \
                    [{"op": "refs", "defs": [[n_, doc["definitions"][n_]] for n_ in order]}]
                cases.append({"id": cid, "settings": {"struct_builder": r.random() < 0.5}, "history": hist,
                              "opts": {"has_impl": False, "hooks": True}})
                meta[cid] = {"source": "derived_name:" + label, "settings": cases[-1]["settings"], "settings_sig": "small",
                             "history_kind": hk + (":" + ">".join(order) if order else ""), "supported": False, "doc": doc}
    # member defaults inside struct variants of a union, with the struct variant before / after data-less, newtype and tuple variants
    vd = {"flag": {"type": "boolean", "default": True}, "n": {"type": "integer", "default": 5},
          "nz": {"type": "integer", "minimum": 1, "default": 3}, "neg": {"type": "integer", "format": "int32", "default": -2},
          "s": {"type": "string", "default": "x"}}
    k_ = 0
    for members in (["flag"], ["n"], ["nz"], ["neg", "s"], list(vd)):
        sv = {"type": "object", "required": ["Cfg"], "additionalProperties": False,
              "properties": {"Cfg": {"type": "object", "properties": {m_: vd[m_] for m_ in members}}}}
        others = [{"type": "string", "enum": ["Off"]},
                  {"type": "object", "required": ["Num"], "properties": {"Num": {"type": "integer"}}, "additionalProperties": False},
                  {"type": "object", "required": ["Pair"], "additionalProperties": False,
                   "properties": {"Pair": {"type": "array", "items": [{"type": "integer"}, {"type": "string"}], "minItems": 2, "maxItems": 2}}}]
        for pos in (0, 1, 3):
            branches = others[:pos] + [sv] + others[pos:]
            doc = {"definitions": {"Mode": {"oneOf": branches}}}
            cid = "v%03d" % k_
            k_ += 1
            st = {"struct_builder": k_ % 2 == 0}
            cases.append({"id": cid, "settings": st, "history": [{"op": "root", "schema": doc}], "opts": {"has_impl": False, "hooks": True}})
            meta[cid] = {"source": "variant_defaults:%s@%d" % ("+".join(members), pos), "settings": st, "settings_sig": "small",
                         "history_kind": "root", "supported": False, "doc": doc}
    # f32 / f64 values inside rendered defaults (arrays, tuples, nullable, maps, named, enum values)
    for j, fmt in enumerate(["float", "double", None]):
        fl = dict({"type": "number"}, **({"format": fmt} if fmt else {}))
        doc = {"definitions": {
            "Level": dict(fl, default=2.5),
            "Steps": dict(fl, enum=[0.5, 1.5, 3.0]),
            "Gauge": {"type": "object", "properties": {
                "weights": {"type": "array", "items": dict(fl), "default": [0.5, 1.5, 1.0]},
                "pair": {"type": "array", "items": [dict(fl), {"type": "integer"}], "minItems": 2, "maxItems": 2, "default": [0.25, 3]},
                "maybe": dict(fl, type=["number", "null"], default=0.75),
                "named": {"$ref": "#/definitions/Level", "default": 1.25},
                "by_name": {"type": "object", "additionalProperties": dict(fl), "default": {"a": 0.5}},
                "step": {"$ref": "#/definitions/Steps", "default": 1.5},
                "fixed": {"type": "array", "items": dict(fl), "minItems": 2, "maxItems": 2, "default": [1.0, 2.0]}}}}}
        for bld in (False, True):
            cid = "f%02d%d" % (j, bld)
            st = {"struct_builder": bld}
            cases.append({"id": cid, "settings": st, "history": [{"op": "root", "schema": doc}], "opts": {"has_impl": False, "hooks": True}})
            meta[cid] = {"source": "float_defaults:%s" % fmt, "settings": st, "settings_sig": "small", "history_kind": "root",
                         "supported": False, "doc": doc}
    # map-typed members: every key constraint x value kind x required/optional/defaulted, under each map type
    key_kinds = {"plain": {}, "names_pattern": {"propertyNames": {"pattern": "^[a-z]+$"}},
                 "names_len": {"propertyNames": {"maxLength": 8}}, "names_ref": {"propertyNames": {"$ref": "#/definitions/Key"}},
                 "pattern_props": None}
    val_kinds = {"any": True, "absent": None, "string": {"type": "string"}, "ref": {"$ref": "#/definitions/Val"},
                 "nested_map": {"type": "object", "additionalProperties": {"type": "integer"}}}
    k_ = 0
    for kk, kc in key_kinds.items():
        for vk, vs in val_kinds.items():
            props, req = {}, []
            for mode in ("opt", "req", "dflt"):
                if kc is None:
                    m = {"type": "object", "patternProperties": {"^x-": ({} if vs in (True, None) else vs)},
                         "additionalProperties": False}
                else:
                    m = dict({"type": "object"}, **kc)
                    if vs is not None:
                        m["additionalProperties"] = vs
                if mode == "dflt":
                    m["default"] = {}
                props["m_" + mode] = m
                if mode == "req":
                    req.append("m_req")
            doc = {"definitions": {"Key": {"type": "string", "pattern": "^[a-z]+$"},
                                   "Val": {"type": "object", "properties": {"v": {"type": "integer"}}},
                                   "Holder": {"type": "object", "properties": props, "required": req},
                                   "Named": props["m_opt"]}}
            for mt in (None, "::std::collections::BTreeMap", "::vrt::support::VMap"):
                cid = "m%03d" % k_
                k_ += 1
                st = {"struct_builder": k_ % 2 == 0}
                if mt:
                    st["map_type"] = mt
                cases.append({"id": cid, "settings": st, "history": [{"op": "root", "schema": doc}],
                              "opts": {"has_impl": False, "hooks": True}})
                meta[cid] = {"source": "map_members:%s/%s" % (kk, vk), "settings": st, "settings_sig": "map:" + str(mt),
                             "history_kind": "root", "supported": False, "doc": doc}
    for i, (name, doc) in enumerate(schemars_corpus()):
        r = util.rng(seed, "C01", "m", name)
        if name.startswith(("forced_", "doc_")):
            # the directed origin types go through both ingestion routes
            add("m%04d" % i, doc, "schemars:" + name, r, supported=True, settings={}, hk="root")
            add("n%04d" % i, doc, "schemars:" + name, r, supported=True, settings={}, hk="refs_split")
        else:
            add("m%04d" % i, doc, "schemars:" + name, r, supported=True, settings={}, hk=["root", "refs_split"][(i + seed) % 2])
    for name, c in corpus_cases("C01"):
        cid = "k_" + re.sub(r"[^A-Za-z0-9]", "_", name)
        c = dict(c)
        c["id"] = cid
        c.setdefault("opts", {"has_impl": False})
        cases.append(c)
        meta[cid] = {"source": "corpus:" + name, "settings": c.get("settings"), "settings_sig": "corpus",
                     "history_kind": "corpus", "supported": False, "doc": None}
    return cases, meta


C01_PREDS = {}


def _pred(f):
    C01_PREDS[f.__name__] = f
    return f


@_pred
def corpus_case(v, name=None, site_re=None):
    """The finding is identified by the pinned corpus input and the failure site."""
    c = v.get("case") or {}
    if c.get("id") != "k_" + re.sub(r"[^A-Za-z0-9]", "_", name or ""):
        return False
    return re.search(site_re, v.get("site") or "") is not None if site_re else True


def _case_docs(v):
    c = v.get("case") or {}
    for st in c.get("history") or []:
        if st.get("op") == "root":
            yield st.get("schema") or {}
        elif st.get("op") == "refs":
            yield {"definitions": {k: s_ for k, s_ in st.get("defs") or []}}
        elif st.get("op") == "type":
            yield st.get("schema") or {}


@_pred
def null_only_union(v):
    """KF-C01-1: the input contains a oneOf/anyOf with >=2 branches, all of them {type: null}; the panic is the
    untagged-enum assertion in to_stream."""
    if "assertion failed: variants" not in (v.get("site") or ""):
        return False
    for doc in _case_docs(v):
        for s_ in common.walk_doc(doc):
            for key in ("oneOf", "anyOf"):
                bs = s_.get(key) if isinstance(s_, dict) else None
                if isinstance(bs, list) and len(bs) >= 2 and all(isinstance(b, dict) and b.get("type") == "null" and
                                                                 set(b) <= {"type", "description", "title"} for b in bs):
                    return True
    return False


def _bare_ref_target(s_):
    if isinstance(s_, dict) and isinstance(s_.get("$ref"), str) and set(s_) <= {"$ref", "description", "title"} and \
            s_["$ref"].startswith("#/definitions/"):
        return s_["$ref"][len("#/definitions/"):]
    return None


@_pred
def alias_cycle_definitions(v):
    """KF-C01-3: two or more definitions that are nothing but $refs to one another (A -> B -> A): the transparent
    newtypes deref into each other, so every method call on them overflows rustc's autoderef (E0055)."""
    if "E0055" not in (v.get("codes") or []):
        return False
    defs = {}
    for doc in _case_docs(v):
        defs.update(doc.get("definitions") or {})
    for name in defs:
        seen, cur = [], name
        while cur in defs and _bare_ref_target(defs[cur]) is not None and cur not in seen:
            seen.append(cur)
            cur = _bare_ref_target(defs[cur])
        if cur == name and len(seen) >= 2:
            return True
    return False


@_pred
def absent_member_default_no_default_impl(v):
    """KF-C01-4 (= KF-C06-2 / KF-C18-2 in its uncompilable form): a member absent from a rendered default value is
    written `Default::default()` although its type (Ipv4Addr, a tuple of generated types, an enum) has no Default."""
    import re as _re
    first = ((v.get("detail") or {}).get("first") or "")
    codes = set(v.get("codes") or [])
    return codes <= {"E0277"} and "Default::default()" in first and \
        _re.search(r"the trait bound `[^`]*: Default` is not satisfied|the trait `Default` is not implemented", first) is not None


@_pred
def self_alias_definition(v):
    """KF-C01-2: a definition that is nothing but a $ref to itself; the only error codes are E0119 (+ consequences)."""
    if "E0119" not in (v.get("codes") or []):
        return False
    for doc in _case_docs(v):
        for name, s_ in (doc.get("definitions") or {}).items():
            if isinstance(s_, dict) and s_.get("$ref") == "#/definitions/" + name and \
                    set(s_) <= {"$ref", "description", "title"}:
                return True
    return False

"""C14 — replacement, conversion, patch, derive and map-type settings apply everywhere."""
import copy
import json
import re

from vlib import instgen, oracle, pipeline, schemagen, util, vgen
from vlib.driver import norm, type_facts
from . import common

PROP = "C14"

REPL = "::vrt::support::Repl"

TARGETS = [
    {"type": "object", "properties": {"tv": {"type": "integer"}, "ts": {"type": "string"}}, "required": ["tv"]},
    {"type": "string", "enum": ["tx", "ty", "tz"]},
    {"type": "string", "minLength": 1, "maxLength": 9},
    {"type": "object", "properties": {"inner": {"type": "array", "items": {"type": "string"}}}, "additionalProperties": False},
    {"oneOf": [{"type": "object", "properties": {"k": {"type": "string", "enum": ["A"]}, "n": {"type": "integer"}}, "required": ["k", "n"]},
               {"type": "object", "properties": {"k": {"type": "string", "enum": ["B"]}}, "required": ["k"]}]},
]
CONV_SCHEMAS = [
    {"type": "string", "format": "custom-thing"},
    {"type": "integer", "minimum": 7.0},
    {"type": "object", "properties": {"cx": {"type": "boolean"}}, "required": ["cx"]},
    {"type": "string", "enum": ["only", "these"]},
]


def positions(sub, r):
    """A User struct, an enum and an allOf that use `sub` in every syntactic position."""
    user = {"type": "object", "properties": {
        "p": sub,
        "opt": copy.deepcopy(sub),
        "arr": {"type": "array", "items": copy.deepcopy(sub)},
        "tup": {"type": "array", "items": [copy.deepcopy(sub), {"type": "integer"}], "minItems": 2, "maxItems": 2},
        "fixed": {"type": "array", "items": copy.deepcopy(sub), "minItems": 2, "maxItems": 2},
        "m": {"type": "object", "additionalProperties": copy.deepcopy(sub)},
        "nullable": {"anyOf": [copy.deepcopy(sub), {"type": "null"}]},
        # one-member wrappers that only add an annotation
        "w_allof": {"description": "wrapped", "allOf": [copy.deepcopy(sub)]},
        "w_oneof": {"description": "wrapped", "oneOf": [copy.deepcopy(sub)]},
        "w_anyof": {"anyOf": [copy.deepcopy(sub)]},
        "plainmap": {"type": "object", "additionalProperties": {"type": "integer"}},
        "anymap": {"type": "object"},
        "keyedany": {"type": "object", "propertyNames": {"pattern": "^[a-z]+$"}, "additionalProperties": True},
        "patany": {"type": "object", "patternProperties": {"^x-": {}}, "additionalProperties": False},
        "keyedtyped": {"type": "object", "propertyNames": {"pattern": "^[a-z]+$"}, "additionalProperties": {"type": "integer"}},
        "keyedtrue": {"type": "object", "propertyNames": True, "additionalProperties": {"type": "integer"}},
        "keyedempty": {"type": "object", "propertyNames": {}, "additionalProperties": {"type": "string"}},
        "nested": {"type": "object", "properties": {"deep": {"type": "array", "items": {"type": "object", "additionalProperties": copy.deepcopy(sub)}}}},
    }, "required": ["p", "arr", "tup", "fixed", "m", "nullable", "w_allof", "w_oneof", "w_anyof"]}
    enum = {"oneOf": [{"type": "string", "enum": ["Unit"]},
                      {"type": "object", "required": ["Item"], "properties": {"Item": copy.deepcopy(sub)}, "additionalProperties": False},
                      {"type": "object", "required": ["Struct"],
                       "properties": {"Struct": {"type": "object", "properties": {"f": copy.deepcopy(sub), "g": {"type": "integer"}},
                                                 "required": ["f"]}}, "additionalProperties": False}]}
    return user, enum


def build(r, kind):
    """Returns (doc, settings, info)."""
    bystander = {"type": "object", "properties": {"bx": {"type": "integer", "format": "uint8"},
                                                  "bm": {"type": "object", "additionalProperties": {"type": "string"}},
                                                  "be": {"type": "string", "enum": ["p", "q"]}}, "required": ["bx"]}
    info = {"kind": kind}
    if kind == "convert":
        cs = copy.deepcopy(r.choice(CONV_SCHEMAS))
        sub = dict(cs)
        if r.random() < 0.5:
            sub["description"] = "annotated use"
        user, enum = positions(sub, r)
        # vary annotations between use sites
        user["properties"]["opt"]["title"] = "Titled use"
        defs = {"User": user, "Choice": enum, "Bystander": bystander, "Alias": dict(cs, description="as a definition")}
        conv_schema = dict(cs)
        if r.random() < 0.5:
            # the conversion schema itself may carry annotations (e.g. copied verbatim from the document)
            conv_schema[r.choice(["description", "title"])] = "annotated conversion schema"
        settings = {"conversions": [{"schema": conv_schema, "type": REPL, "impls": ["Display"]}]}
        if r.random() < 0.6:
            # a second conversion schema mapped to the SAME target type (two spellings of one concept), before or after
            second = {"type": "string", "format": "second-spelling"}
            user["properties"]["second"] = dict(second)
            user["properties"]["seconds"] = {"type": "array", "items": dict(second, description="annotated")}
            user["required"] += ["second"]
            extra = {"schema": second, "type": REPL, "impls": ["Display"]}
            settings["conversions"] = [extra] + settings["conversions"] if r.random() < 0.5 else settings["conversions"] + [extra]
            info["second_conversion"] = True
        info.update(conv=cs, affected=["User", "Choice", "Alias"])
        return {"definitions": defs}, settings, info
    target = copy.deepcopy(r.choice(TARGETS))
    tname = r.choice(["Target", "target-thing", "my_target"])
    tref = {"$ref": "#/definitions/" + tname}
    user, enum = positions(tref, r)
    defs = {tname: target, "User": user, "Choice": enum, "Bystander": bystander}
    if "properties" in target and target.get("type") == "object" and target.get("additionalProperties") is not False:
        # (a closed target makes the conjunction unsatisfiable: typify's empty enum is then correct)
        defs["Merged"] = {"allOf": [tref, {"type": "object", "properties": {"extra_member": {"type": "boolean"}},
                                           "required": ["extra_member"]}]}
    pascal = {"Target": "Target", "target-thing": "TargetThing", "my_target": "MyTarget"}[tname]
    info.update(target=tname, pascal=pascal, target_schema=target)
    if kind == "replace":
        settings = {"replacements": [{"name": pascal, "type": REPL, "impls": r.choice([[], ["Display"], ["Default", "FromStr"]])}]}
        info["affected"] = ["User", "Choice", tname, "Merged"]
    elif kind == "patch":
        # the new name is the caller's spelling and is used as given (acronyms, underscores, a lower-case initial)
        newname = r.choice(["Renamed" + pascal, "Renamed" + pascal, "IO" + pascal + "V2", "Re_Named_" + pascal,
                            "renamed" + pascal, "XMLHttp" + pascal])
        info["newname"] = newname
        settings = {"patches": [{"name": pascal, "rename": newname, "derives": ["PartialEq", "Eq"] if
                                 target.get("type") == "string" else ["PartialEq"]}]}
        if target.get("type") != "string":
            settings["patches"][0]["derives"] = ["Default"] if False else ["PartialEq"]
        info["affected"] = []
    elif kind == "derive":
        settings = {"derives": ["PartialEq"] + (["schemars::JsonSchema"] if False else [])}
        info["affected"] = []
    elif kind == "map":
        settings = {"map_type": r.choice(["::std::collections::BTreeMap", "::vrt::support::VMap", "std::collections::BTreeMap"])}
        info["affected"] = []
    elif kind == "builder":
        settings = {"struct_builder": True}
        info["affected"] = []
    else:
        raise ValueError(kind)
    return {"definitions": defs}, settings, info


def word_in(word, text):
    return re.search(r"(?<![A-Za-z0-9_])%s(?![A-Za-z0-9_])" % re.escape(word), text) is not None


def all_type_texts(res):
    out = []
    for f in res.get("facts") or []:
        if f["kind"] == "struct":
            for fld in f.get("fields") or []:
                out.append((f["mod"], f["name"], fld.get("ident"), norm(fld["ty"])))
        elif f["kind"] == "enum":
            for v in f.get("variants") or []:
                for fld in v.get("fields") or []:
                    out.append((f["mod"], f["name"], "%s.%s" % (v["ident"], fld.get("ident")), norm(fld["ty"])))
        elif f["kind"] == "impl":
            out.append((f["mod"], "impl", norm(f.get("trait") or ""), norm(f["self_ty"])))
    return out


def syntactic(res, settings, info, rep, case):
    kind = info["kind"]
    items = {(f["mod"], f["name"]): f for f in res.get("facts") or [] if f["kind"] in ("struct", "enum")}
    texts = all_type_texts(res)
    n = 0

    def viol(k, site, det, cause=None):
        rep.violation(k, kind + ":" + site, dict(det, cause=cause) if cause else det, case=case, info=info, cause=cause)

    user = items.get(("", "User")) or {}
    ufields = {f["ident"]: norm(f["ty"]) for f in user.get("fields") or []}
    if kind in ("replace", "convert"):
        expect_in = ["p", "opt", "arr", "tup", "fixed", "m", "nullable", "w_allof", "w_oneof", "w_anyof"]
        for fld in expect_in:
            n += 1
            if REPL not in ufields.get(fld, ""):
                cause = None
                cs_ = (info.get("conv") or {}) if kind == "convert" else {}
                ext_obj = cs_.get("type") == "object" and len(cs_.get("properties") or {}) == 1 and \
                    cs_.get("required") == list(cs_.get("properties") or {}) and cs_.get("additionalProperties") is not False
                ext_str = cs_.get("type") == "string" and isinstance(cs_.get("enum"), list)
                if fld in ("w_oneof", "w_anyof") and (ext_obj or ext_str):
                    # KF-C14-1: a one-member oneOf/anyOf around a subschema shaped like an externally tagged variant (an open
                    # object with exactly one required member, or a string enum) is read as an enum BEFORE conversions are looked up
                    it_ = items.get(("", ufields.get(fld, "")))
                    if it_ and it_["kind"] == "enum":
                        cause = "single_member_union_read_as_external_variant"
                viol("use_site_not_substituted", "User." + fld, {"field": fld, "type": ufields.get(fld)}, cause=cause)
        if info.get("second_conversion"):
            for fld in ("second", "seconds"):
                n += 1
                if REPL not in ufields.get(fld, ""):
                    viol("use_site_not_substituted", "User." + fld, {"field": fld, "type": ufields.get(fld), "conversion": "second"})
        choice = items.get(("", "Choice")) or {}
        for v in choice.get("variants") or []:
            if v["ident"] in ("Item", "Struct"):
                n += 1
                tys = [norm(f["ty"]) for f in v.get("fields") or []]
                if not any(REPL in t for t in tys):
                    viol("use_site_not_substituted", "Choice." + v["ident"], {"types": tys})
        nested = [t for (m, nm, fld, t) in texts if nm.startswith("User") and fld == "deep"]
        for t in nested:
            n += 1
            if REPL not in t:
                viol("use_site_not_substituted", "User.nested.deep", {"type": t})
    if kind == "replace":
        p = info["pascal"]
        n += 1
        if ("", p) in items:
            viol("replaced_definition_generated", "item", {"name": p})
        for (m, nm, fld, t) in texts:
            if word_in(p, t):
                viol("replaced_type_still_referenced", "%s.%s" % (nm, fld), {"type": t})
                break
        merged = items.get(("", "Merged"))
        if "Merged" in (res.get("defs") or {}):
            n += 1
            # members of an allOf are merged structurally: the replacement type must not be flattened/referenced in
            if merged is None or merged["kind"] != "struct" or not any(f["ident"] == "extra_member" for f in merged["fields"]):
                viol("allof_member_not_merged_structurally", "Merged", {"item": merged})
            elif any(REPL in norm(f["ty"]) for f in merged["fields"]):
                viol("allof_member_referenced_replacement", "Merged", {"fields": merged["fields"]})
    if kind == "convert":
        alias = items.get(("", "Alias"))
        n += 1
        if alias is not None and not any(REPL in norm(f["ty"]) for f in alias.get("fields") or []):
            viol("conversion_not_applied_to_definition", "Alias", {"item": alias.get("fields")})
    if kind == "patch":
        p = info["pascal"]
        newn = info.get("newname") or settings["patches"][0]["rename"]
        n += 3
        if ("", p) in items:
            viol("old_name_still_defined", "item", {"name": p})
        if ("", newn) not in items:
            viol("new_name_not_defined", "item", {"name": newn})
        else:
            want = settings["patches"][0]["derives"]
            have = items[("", newn)].get("derives") or []
            if not all(d in have for d in want):
                viol("patch_derives_missing", "derive", {"want": want, "have": have})
        for (m, nm, fld, t) in texts:
            if word_in(p, t) or (nm != "impl" and word_in(p, nm)):
                viol("old_name_still_used", "%s.%s" % (nm, fld), {"type": t})
                break
        for fld in ["p", "opt", "arr", "tup", "fixed", "m", "nullable", "w_allof", "w_oneof", "w_anyof"]:
            n += 1
            if not word_in(newn, ufields.get(fld, "")):
                viol("use_site_not_renamed", "User." + fld, {"type": ufields.get(fld)})
    # the is_empty path of every optional map member must belong to the type the member actually has
    for f in res.get("facts") or []:
        if f["kind"] != "struct":
            continue
        for fld in f.get("fields") or []:
            ssi = (fld.get("serde") or {}).get("skip_serializing_if")
            ty = norm(fld.get("ty") or "")
            if isinstance(ssi, str) and ssi.endswith("::is_empty") and "Map" in ty.split("<")[0]:
                n += 1
                if norm(ssi[: -len("::is_empty")]) != ty.split("<")[0]:
                    viol("map_is_empty_path_mismatch", "%s.%s" % (f["name"], fld.get("ident")), {"type": ty, "attr": ssi})
    if kind == "derive":
        for (m, nm), it in items.items():
            if m == "":
                n += 1
                if "PartialEq" not in (it.get("derives") or []):
                    viol("global_derive_missing", it["kind"], {"type": nm, "derives": it.get("derives")})
    if kind == "map":
        mt = norm(settings["map_type"])
        for (m, nm, fld, t) in texts:
            if nm == "impl":
                continue
            n += 1
            stripped = t.replace("::serde_json::Map<", "")
            if "HashMap<" in stripped and "HashMap" not in mt:
                viol("map_type_not_applied", "%s.%s" % (nm, fld), {"type": t, "map_type": mt})
            if fld in ("m", "plainmap") and nm == "User" and mt + "<" not in t:
                viol("map_type_not_applied", "User." + fld, {"type": t, "map_type": mt})
            if fld == "anymap" and nm == "User" and "::serde_json::Map<::std::string::String,::serde_json::Value>" not in t:
                viol("string_to_any_map_changed", "User.anymap", {"type": t})
        for f in res.get("facts") or []:
            if f["kind"] == "struct":
                for fld in f.get("fields") or []:
                    ssi = (fld.get("serde") or {}).get("skip_serializing_if")
                    if isinstance(ssi, str) and "HashMap" in ssi and "HashMap" not in mt:
                        viol("map_is_empty_path_not_applied", "%s.%s" % (f["name"], fld.get("ident")), {"attr": ssi})
    return n


def run(tier, seed, replay=None):
    rep = util.Report(PROP, tier, seed)
    rep.rule = ("documents in which the target (a definition for replace/patch, a subschema for convert) is used as property, "
                "optional property, array item, tuple member, fixed-array item, map value, nullable, variant payload, struct-"
                "variant field, nested map value and allOf member; one base run (default settings) and one run per setting kind "
                "{replace, convert, patch, derive, map type x3, builder}; syntactic obligations on syn facts + behaviour vectors "
                "of unaffected definitions compared with the base run. Non-trivial: every (document, setting kind); distinct by "
                "(target schema, setting).")
    rep.assumptions = ["::vrt::support::Repl stands in for user-supplied replacement/conversion types",
                       "a type is 'unaffected' by replace/convert if it does not (transitively) contain the target"]
    n = 16 if tier == "quick" else 250
    kinds = ["replace", "convert", "patch", "derive", "map", "builder"]
    cases, meta = [], {}
    for i in range(n):
        for kind in kinds:
            r = util.rng(seed, PROP, "doc", i, kind)
            doc, settings, info = build(r, kind)
            for variant, st in (("base", {}), ("var", settings)):
                cid = "c%03d_%s_%s" % (i, kind, variant)
                hist = [{"op": "root", "schema": doc}]
                if kind == "replace" and variant == "var" and i % 2:
                    # the replaced definition arrives again in a second batch (two documents sharing a hand-written
                    # type): the replacement has to hold there as well
                    tn = info["target"]
                    hist.append({"op": "refs", "defs": [[tn, doc["definitions"][tn]],
                                                        ["SecondUser", {"type": "object", "required": ["value"],
                                                                        "properties": {"value": {"$ref": "#/definitions/" + tn},
                                                                                       "many": {"type": "array", "items": {"$ref": "#/definitions/" + tn}}}}]]})
                cases.append({"id": cid, "settings": st, "history": hist, "opts": {"has_impl": False}})
                meta[cid] = {"doc": doc, "settings": st, "info": info, "variant": variant, "pair": "c%03d_%s" % (i, kind)}
    if replay:
        data = json.load(open(replay))
        f = data.get("first") or data
        c = f["case"]
        base = dict(c, id=c["id"].replace("_var", "_base"), settings={})
        cases = [base, c]
        info = f.get("info") or {"kind": "derive", "affected": []}
        meta = {base["id"]: {"doc": c["history"][0]["schema"], "settings": {}, "info": info, "variant": "base", "pair": "r"},
                c["id"]: {"doc": c["history"][0]["schema"], "settings": c["settings"], "info": info, "variant": "var", "pair": "r"}}
    run_ = pipeline.Run(PROP, "main")
    results = run_.vgen(cases)
    by_case = {c["id"]: c for c in cases}
    ok = set()
    for cid, res in results.items():
        m = meta[cid]
        st = vgen.ingest_status(res)
        if st != "ok" or res.get("syn") != "ok":
            if m["variant"] == "var":
                base_st = vgen.ingest_status(results[m["pair"] + "_base"]) if (m["pair"] + "_base") in results else None
                if base_st == "ok":
                    rep.violation("setting_breaks_generation", m["info"]["kind"] + ":" + st,
                                  {"steps": res.get("steps"), "render": res.get("render_msg")}, case=by_case[cid], info=m["info"])
            continue
        ok.add(cid)
        if m["variant"] == "var":
            rep.evaluations += syntactic(res, m["settings"], m["info"], rep, by_case[cid])
            rep.nontrivial.add((json.dumps(m["info"].get("target_schema") or m["info"].get("conv"), sort_keys=True),
                                json.dumps(m["settings"], sort_keys=True)))
    run_.compile(ids=ok, want_builder=False, want_str=False, want_default=False)
    for cid in sorted(ok):
        m = meta[cid]
        if cid in run_.s2.removed and m["variant"] == "var" and (m["pair"] + "_base") not in run_.s2.removed:
            d = (run_.s2.diags.get(cid) or [{}])[0]
            rep.violation("setting_breaks_compilation", m["info"]["kind"] + ":" + str(d.get("code")),
                          {"msg": (d.get("rendered") or "")[:600]}, case=by_case[cid], info=m["info"])
    # behaviour vectors
    probes = []
    cand_cache = {}
    for cid in sorted(ok):
        if cid in run_.s2.removed:
            continue
        m = meta[cid]
        doc = m["doc"]
        res = results[cid]
        for dname, dschema in doc["definitions"].items():
            if m["info"]["kind"] in ("replace", "convert") and dname in m["info"].get("affected", []):
                continue
            tname = norm(((res.get("defs") or {}).get(dname) or {}).get("name") or "")
            if tname not in run_.info.get(cid, {}):
                continue
            key = (m["pair"], dname)
            if key not in cand_cache:
                r = util.rng(seed, PROP, "inst", m["pair"], dname)
                ig = instgen.InstGen(r, doc["definitions"])
                base = ig.instances(dschema, 6)
                cands = list(base)
                for v in base[:3]:
                    cands += [x[2] for x in instgen.mutants(v, r, limit=5)]
                cand_cache[key] = [c for c in cands if pipeline.within_i64(c)][:30]
            for k, v in enumerate(cand_cache[key]):
                probes.append({"pid": len(probes), "case": cid, "ty": tname, "op": "de", "input": instgen.to_text(v),
                               "key": (m["pair"], dname, k), "variant": m["variant"]})
    outs, ab, to, sk = run_.probe([{k: v for k, v in p.items() if k not in ("key", "variant")} for p in probes])
    vec = {}
    for p in probes:
        o = outs.get(p["pid"])
        if o is None:
            continue
        w = None
        if o.get("ok") and o.get("w") is not None:
            try:
                w = json.loads(o["w"])
            except Exception:
                w = o["w"]
        vec.setdefault(p["key"], {})[p["variant"]] = (bool(o.get("ok")), w, p["input"])
    for key, d in vec.items():
        if "base" in d and "var" in d:
            rep.evaluations += 1
            if d["base"][:2] != d["var"][:2]:
                cid = key[0] + "_var"
                rep.violation("behaviour_changed", meta[cid]["info"]["kind"] + ":" + key[1],
                              {"def": key[1], "input": d["base"][2], "default_settings": d["base"][:2], "with_setting": d["var"][:2],
                               "settings": meta[cid]["settings"]}, case=by_case[cid], info=meta[cid]["info"])
            else:
                rep.count("behaviour_equal")
    rep.sample({"kinds": kinds, "positions": ["p", "opt", "arr", "tup", "fixed", "m", "nullable", "variant item", "variant struct field",
                                              "nested map value", "allOf member"]})
    return rep.finish(util.Findings(PROP, dict(common.PREDS)), min_nontrivial=20)

"""C04 — Rust -> schemars schema -> typify type is wire compatible with the original."""
import copy
import json
import os
import re

from vlib import instgen, pipeline, rustgen, stage2, util, vgen
from vlib.driver import norm
from . import common

PROP = "C04"


def origin_stage(seed, n, tier):
    """Compile and run generated universes; returns {uid: {"src":..., "kinds":..., "schemas": {root: schema}}}."""
    s2 = stage2.Stage2(PROP, "origin", extra_deps='schemars = "0.8.22"')
    unis = {}
    for i in range(n):
        r = util.rng(seed, PROP, "uni", i)
        src, roots, kinds = rustgen.gen_universe(r, index=i)
        uid = "u%04d" % i
        emit = "pub fn emit() -> ::serde_json::Value {\n    ::serde_json::json!({\n" + \
            "".join('        "%s": ::schemars::schema_for!(%s),\n' % (rt, rt) for rt in roots) + "    })\n}\n"
        drv = ('pub fn dispatch(_ty: &str, op: &str, _input: &::serde_json::Value) -> ::serde_json::Value {\n'
               '    match op { "emit" => super::gen::emit(), _ => ::vrt::unknown_op() }\n}\n')
        s2.add_case(uid, "#![allow(warnings)]\n" + src + "\n" + emit, drv)
        unis[uid] = {"src": src, "roots": roots, "kinds": kinds}
    s2.build()
    probes = [{"pid": uid, "case": uid, "ty": "", "op": "emit", "input": None} for uid in unis if uid not in s2.removed]
    outs, ab, to, sk = s2.run(probes)
    for uid in list(unis):
        if uid in s2.removed or not isinstance(outs.get(uid), dict) or "harness_error" in outs.get(uid, {}) or \
                "panic" in outs.get(uid, {}):
            unis[uid]["schemas"] = None
            unis[uid]["origin_error"] = (s2.diags.get(uid) or [{}])[0].get("rendered", "")[:300] if uid in s2.removed \
                else str(outs.get(uid))[:200]
        else:
            unis[uid]["schemas"] = outs[uid]
    return unis, s2


def wire_driver(root, tprime):
    o = "super::origin::" + root
    return """#![allow(warnings)]
use ::serde_json::json;
use super::gen::*;

pub fn dispatch(_ty: &str, op: &str, input: &::serde_json::Value) -> ::serde_json::Value {
    match op { "wire" => wire(input), _ => ::vrt::unknown_op() }
}

fn wire(input: &::serde_json::Value) -> ::serde_json::Value {
    let text = input.as_str().unwrap_or("");
    let x: %(o)s = match ::serde_json::from_str(text) {
        Ok(x) => x,
        Err(e) => return json!({"origin_ok": false, "err": e.to_string()}),
    };
    let x_json = match ::serde_json::to_string(&x) {
        Ok(s) => s,
        Err(e) => return json!({"origin_ok": false, "err": format!("ser: {}", e)}),
    };
    let self_rt = ::serde_json::from_str::<%(o)s>(&x_json).map(|x1| x1 == x).unwrap_or(false);
    let y: ::std::result::Result<%(t)s, _> = ::serde_json::from_str(&x_json);
    match y {
        Err(e) => json!({"origin_ok": true, "self_rt": self_rt, "x_json": x_json, "de_ok": false, "err": e.to_string()}),
        Ok(y) => {
            let y_json = match ::serde_json::to_string(&y) {
                Ok(s) => s,
                Err(e) => return json!({"origin_ok": true, "self_rt": self_rt, "x_json": x_json, "de_ok": true,
                                       "ser_err": e.to_string()}),
            };
            let back = ::serde_json::from_str::<%(o)s>(&y_json);
            let (back_ok, back_eq, back_err) = match back {
                Ok(b) => (true, b == x, String::new()),
                Err(e) => (false, false, e.to_string()),
            };
            json!({"origin_ok": true, "self_rt": self_rt, "x_json": x_json, "de_ok": true, "y_json": y_json,
                   "back_ok": back_ok, "back_eq": back_eq, "back_err": back_err})
        }
    }
}
""" % {"o": o, "t": tprime}


def run(tier, seed, replay=None):
    rep = util.Report(PROP, tier, seed)
    rep.rule = ("random universes of 2-6 Rust type definitions (named/tuple/newtype/unit structs; enums with unit/newtype/tuple/"
                "struct variants under external/internal/adjacent/untagged tagging; rename, rename_all x7, default, "
                "deny_unknown_fields, skip_serializing_if; fields over primitives, Option, Vec, maps, sets, tuples, arrays, Box, "
                "references and heap recursion) are compiled with serde+schemars and RUN to emit their schemas; typify output "
                "for both ingestion routes is compiled next to the origin types; values are exchanged as JSON both ways. "
                "Non-trivial: sample accepted by the origin type with >=1 attribute or nesting; distinct by (origin type kind, "
                "route, value shape).")
    rep.assumptions = [
        "sample values: schema-directed JSON + mutants that the ORIGIN type deserialises and re-serialises identically "
        "(samples for which T does not round-trip through itself are discarded and counted)",
        "universes whose origin module does not compile (generator mistakes w.r.t. serde's own rules) are harness errors",
        "float fields compare with PartialEq after a JSON round trip (short dyadic values only)",
    ]
    n = int(__import__("os").environ.get("C04_N", 14 if tier == "quick" else 400))
    unis, s2o = origin_stage(seed, n, tier)
    bad_origin = [u for u, d in unis.items() if d["schemas"] is None]
    rep.counters["origin_universes_ok"] = len(unis) - len(bad_origin)
    rep.counters["origin_universes_dropped(harness)"] = len(bad_origin)
    for u in bad_origin[:3]:
        util.log("  [origin dropped] %s: %s" % (u, unis[u].get("origin_error")))
    cases, meta = [], {}
    corpus_dir = os.path.join(util.WORK, PROP, "schemars_docs")
    os.makedirs(corpus_dir, exist_ok=True)
    for uid, ud in unis.items():
        if ud["schemas"] is None:
            continue
        for root, schema in ud["schemas"].items():
            with open(os.path.join(corpus_dir, "%s_%s.json" % (uid, root)), "w") as f:
                json.dump(schema, f)
            defs = schema.get("definitions") or {}
            root_obj = {k: v for k, v in schema.items() if k not in ("definitions", "$schema")}
            for route in ("A", "B"):
                cid = "%s_%s_%s" % (uid, root, route)
                if route == "A":
                    hist = [{"op": "root", "schema": schema}]
                else:
                    hist = ([{"op": "refs", "defs": [[k, v] for k, v in defs.items()]}] if defs else []) + \
                        [{"op": "type", "schema": root_obj, "name": schema.get("title") or root}]
                cases.append({"id": cid, "settings": {}, "history": hist, "opts": {"has_impl": False}})
                meta[cid] = {"uid": uid, "root": root, "route": route, "schema": schema, "kind": ud["kinds"].get(root)}
    if not cases:
        rep.inconclusive.append("no origin universe compiled")
        return rep.finish(util.Findings(PROP, {}))
    run_ = pipeline.Run(PROP, "main")
    results = run_.vgen(cases)
    by_case = {c["id"]: c for c in cases}
    ok = set()
    tprime = {}
    for cid, res in results.items():
        m = meta[cid]
        st = vgen.ingest_status(res)
        rep.evaluations += 1
        if st != "ok" or res.get("render") != "ok" or res.get("syn") != "ok":
            msg = (res.get("steps") or [{}])[-1].get("msg") or res.get("render_msg") or res.get("syn_msg") or str(res.get("abort"))
            rep.violation("schemars_schema_rejected", "%s:%s" % (m["route"], common.site_of(msg)),
                          {"route": m["route"], "root": m["root"], "kind": m["kind"], "status": st, "msg": msg,
                           "rust": unis[m["uid"]]["src"][:1500]}, case=by_case[cid], rust=unis[m["uid"]]["src"])
            continue
        rid = (res["steps"][-1].get("ret") or {}).get("id")
        types = res.get("types") or []
        if rid is None or not (1 <= rid <= len(types)):
            rep.violation("no_root_type", m["route"], {"root": m["root"], "ret": res["steps"][-1].get("ret")}, case=by_case[cid])
            continue
        t = types[rid - 1]
        ident = t["ident"]
        tprime[cid] = ident   # resolved through `use super::gen::*` (unnamed roots mention generated types)
        ok.add(cid)

    def drv(cid, res, _d):
        return wire_driver(meta[cid]["root"], tprime[cid])

    def origin(cid, res):
        return "#![allow(warnings)]\n" + unis[meta[cid]["uid"]]["src"]

    run_.s2 = None
    s2 = stage2.Stage2(PROP, "s2_main", extra_deps='schemars = "0.8.22"')
    for cid in sorted(ok):
        s2.add_case(cid, qualify_gen(results[cid]["code"]), drv(cid, results[cid], None), origin_code=origin(cid, results[cid]))
    s2.build()
    for cid in sorted(ok):
        if cid in s2.removed:
            d = (s2.diags.get(cid) or [{}])[0]
            m = meta[cid]
            if s2.removed[cid] == "gen":
                rep.violation("generated_code_does_not_compile", "%s:%s" % (m["route"], d.get("code")),
                              {"root": m["root"], "kind": m["kind"], "msg": d.get("rendered", "")[:600],
                               "rust": unis[m["uid"]]["src"][:1500]}, case=by_case[cid], rust=unis[m["uid"]]["src"])
            else:
                rep.count("driver_or_origin_compile_error_" + s2.removed[cid])
                util.log("  [driver/origin error] %s %s" % (cid, (d.get("rendered") or "")[:400]))
    probes = []
    cands = {}
    for cid in sorted(ok):
        if cid in s2.removed:
            continue
        m = meta[cid]
        key = (m["uid"], m["root"])
        if key not in cands:
            r = util.rng(seed, PROP, "inst", m["uid"], m["root"])
            schema = m["schema"]
            ig = instgen.InstGen(r, schema.get("definitions") or {}, undeclared=False)
            root_obj = {k: v for k, v in schema.items() if k not in ("definitions", "$schema")}
            base = ig.instances(root_obj, 8)
            cs = list(base)
            for v in base[:3]:
                cs += [x[2] for x in instgen.mutants(v, r, limit=4)]
            seen, out = set(), []
            for v in cs:
                try:
                    t = instgen.to_text(v)
                except Exception:
                    continue
                if t not in seen:
                    seen.add(t)
                    out.append((v, t))
            cands[key] = out[:24]
        for k, (v, t) in enumerate(cands[key]):
            probes.append({"pid": len(probes), "case": cid, "ty": "", "op": "wire", "input": t, "k": k})
    outs, ab, to, sk = s2.run([{k: v for k, v in p.items() if k != "k"} for p in probes])
    vec = {}
    for p in probes:
        o = outs.get(p["pid"])
        if o is None:
            continue
        m = meta[p["case"]]
        key = (m["uid"], m["root"], p["k"])
        vec.setdefault(key, {})[m["route"]] = (o, p)
        rep.evaluations += 1
        case = by_case[p["case"]]
        if o.get("panic"):
            rep.violation("wire_probe_panics", common.site_of(o["panic"]), {"input": p["input"]}, case=case,
                          rust=unis[m["uid"]]["src"])
            continue
        if not o.get("origin_ok"):
            rep.count("sample_not_a_value_of_T")
            continue
        if not o.get("self_rt"):
            rep.count("sample_T_does_not_self_roundtrip")
            continue
        det = {"root": m["root"], "kind": m["kind"], "route": m["route"], "x_json": o.get("x_json"), "out": o,
               "rust": unis[m["uid"]]["src"][:2000]}
        kw = dict(case=case, rust=unis[m["uid"]]["src"], schema=m["schema"])
        if not o.get("de_ok"):
            rep.violation("generated_type_rejects_value", "%s:%s" % (m["kind"], common.site_of(o.get("err"))), det, **kw)
        elif o.get("ser_err"):
            rep.violation("generated_type_cannot_serialize", m["kind"], det, **kw)
        elif not o.get("back_ok"):
            rep.violation("origin_rejects_generated_output", "%s:%s" % (m["kind"], common.site_of(o.get("back_err"))), det, **kw)
        elif not o.get("back_eq"):
            rep.violation("value_changed", m["kind"], det, **kw)
        else:
            rep.count("wire_ok_route_" + m["route"])
            rep.nontrivial.add((m["kind"], m["route"], pipeline.value_shape(json.loads(o["x_json"]))))
            if len(rep.samples) < 4 and len(o["x_json"]) > 30:
                rep.sample({"root": m["root"], "kind": m["kind"], "route": m["route"], "x_json": o["x_json"], "y_json": o.get("y_json")})
    for key, d in vec.items():
        if "A" in d and "B" in d:
            a, b = d["A"][0], d["B"][0]
            fa = tuple(a.get(k) for k in ("origin_ok", "de_ok", "back_ok", "back_eq"))
            fb = tuple(b.get(k) for k in ("origin_ok", "de_ok", "back_ok", "back_eq"))
            ya, yb = a.get("y_json"), b.get("y_json")
            same_y = ya == yb or (ya and yb and json.loads(ya) == json.loads(yb))
            if fa != fb or not same_y:
                m = meta[d["A"][1]["case"]]
                rep.violation("routes_differ", str(m["kind"]), {"root": m["root"], "A": a, "B": b,
                                                                "rust": unis[m["uid"]]["src"][:1500]},
                              case=by_case[d["A"][1]["case"]], rust=unis[m["uid"]]["src"])
            else:
                rep.count("routes_agree")
    rep.notes["origin"] = {"universes": len(unis), "dropped": len(bad_origin), "roots": len(cands)}
    rep.notes["stage2"] = {"cases": len(s2.order), "removed": len(s2.removed)}
    if len(unis) - len(bad_origin) < max(3, n // 4):
        rep.inconclusive.append("too many origin universes failed to compile (%d of %d)" % (len(bad_origin), n))
    return rep.finish(util.Findings(PROP, dict(common.PREDS)), min_nontrivial=20)


def qualify(ident):
    return ident


def qualify_gen(code):
    return code

"""C05 — constraints represented in a generated type cannot be bypassed."""
import copy
import json

from vlib import oracle, pipeline, schemagen, util
from vlib.driver import norm, type_facts, impls_of
from . import common, strconv

PROP = "C05"

UNENFORCED = ("minimum", "maximum", "exclusiveMinimum", "exclusiveMaximum", "multipleOf", "format", "uniqueItems",
              "minProperties", "maxProperties", "propertyNames", "const", "contains", "description", "title", "default")


def strip_unenforced(doc, _defs_override=None):
    """The schema reduced to the constraints typify represents in types (the property's list)."""
    # nullability of a required member is judged on the definitions as typify reads them ('exactly one' of a
    # oneOf is not represented, so oneOf[oneOf[.., null], null] IS nullable): first pass without the required rule
    defs = doc.get("definitions", {}) if _defs_override is None else _defs_override

    def f(s):
        s = dict(s)
        for k in UNENFORCED:
            s.pop(k, None)
        if "minItems" in s or "maxItems" in s:
            if not (s.get("minItems") == s.get("maxItems") and s.get("minItems", 0) > 0):
                s.pop("minItems", None)
                s.pop("maxItems", None)
        if s.get("type") == "boolean":
            s.pop("enum", None)       # typify documents that boolean enums are not represented
        if "oneOf" in s:
            s["anyOf"] = s.pop("oneOf")   # 'exactly one' is not a represented constraint
        if isinstance(s.get("required"), list) and isinstance(s.get("properties"), dict):
            keep = []
            for k in s["required"]:
                ps = s["properties"].get(k)
                try:
                    nullable = ps is None or ps is True or oracle.valid_against(ps, None, defs)
                except RecursionError:      # ill-founded reference cycle: the oracle cannot decide
                    nullable = True         # (keeps the member out of the judged constraints)
                if not nullable:
                    keep.append(k)   # a missing nullable member deserialises as None: not a represented constraint
            s["required"] = keep
        if isinstance(s.get("properties"), dict):
            # an optional member is an Option<T>: serde reads an explicit null as None, so "null where the member's
            # schema has no null" is not a represented constraint for members that are not required
            req_ = set(s.get("required") or [])
            s["properties"] = {k: (ps if k in req_ or ps is True or ps == {} else {"anyOf": [ps, {"type": "null"}]})
                               for k, ps in s["properties"].items()}
        return s

    out = oracle.map_schema(copy.deepcopy(doc), f)
    if _defs_override is None:
        return strip_unenforced(doc, _defs_override=out.get("definitions", {}))
    return out


def syn_scan(res):
    """Constrained newtypes must not expose their field or a From<Inner>."""
    issues = []
    impls = impls_of(res)
    for it in res.get("facts") or []:
        if it["kind"] != "struct" or it["mod"] != "" or it.get("shape") != "tuple":
            continue
        derives = it.get("derives") or []
        constrained = "::serde::Deserialize" not in derives   # validating impl emitted instead
        if not constrained:
            continue
        name = it["name"]
        fld = it["fields"][0]
        if fld.get("vis"):
            issues.append(("pub_field_on_constrained_newtype", {"type": name, "vis": fld["vis"]}))
        inner = norm(fld["ty"])
        tr = impls.get(name, set())
        if "::std::convert::From<%s>" % inner in tr:
            issues.append(("from_inner_on_constrained_newtype", {"type": name, "inner": inner}))
    return issues


def internal_unit_extra(res, meta):
    """Mechanism of KF-C05-1: the mutant added a member to an object that consists of nothing but the tag of a
    closed, internally tagged enum whose variants are all unit variants (serde ignores deny_unknown_fields there)."""
    if meta["label"] != "add_member" or meta.get("path") is None:
        return None
    obj = meta["inst"]
    try:
        for k in meta["path"]:
            obj = obj[k]
    except Exception:
        return None
    if not isinstance(obj, dict):
        return None
    rest = {k: v for k, v in obj.items() if k != "zz_added_member"}
    # KF-C05-2: wrapper of an adjacently tagged enum (closedness of the wrapper object is not represented)
    for it in res.get("facts") or []:
        if it["kind"] == "enum":
            sd = it.get("serde") or {}
            if "tag" in sd and "content" in sd and sd.get("deny_unknown_fields") is not True and \
                    sd["tag"] in rest and set(rest) <= {sd["tag"], sd["content"]} and isinstance(rest[sd["tag"]], str):
                names = [(v.get("serde") or {}).get("rename") or v["ident"] for v in it["variants"]]
                if rest[sd["tag"]] in names:
                    return "adjacent_wrapper_closedness_dropped"
    if len(rest) != 1:
        return None
    (tag, val), = rest.items()
    if not isinstance(val, str):
        return None
    for it in res.get("facts") or []:
        if it["kind"] != "enum":
            continue
        sd = it.get("serde") or {}
        if sd.get("tag") == tag and "content" not in sd and sd.get("deny_unknown_fields") is True:
            unit_names = [(v.get("serde") or {}).get("rename") or v["ident"] for v in it["variants"] if v["shape"] == "unit"]
            if val in unit_names:
                return "internal_unit_variant_extra"
    return None


def run(tier, seed, replay=None):
    rep = util.Report(PROP, tier, seed)
    rep.rule = ("schemas from grammar F plus deny lists; valid instances and single-edit mutants (member deleted/added, enum "
                "near-miss, string length +-k with 1-4 byte characters, pattern break, arity +-1, scalar type swap, tag edit); "
                "a mutant is judged when the oracle rejects it under the schema reduced to represented constraints. "
                "String probes: parse/TryFrom/Deserialize must agree. Non-trivial: judged mutant of a non-scalar instance or "
                "a string probe on a constrained type; distinct by (schema shape, mutation label, instance shape).")
    rep.assumptions = common.ORACLE_ASSUMPTIONS + [
        "represented constraints = the property's list; numeric bounds, formats, uniqueItems, min/maxItems of non-fixed "
        "arrays, const, boolean enums, 'exactly one' of oneOf and required-ness of nullable members are stripped before "
        "judging a mutant (rejecting more than that is allowed)",
    ]
    n_docs = 140 if tier == "quick" else 3500
    docs = common.gen_docs(PROP, seed, n_docs, profile="C05", replay=replay)
    fr = common.faithful_run(PROP, rep, docs, seed, n_inst=8 if tier == "quick" else 12, want_invalid=True,
                             n_mut=10, string_mutants=10, alt_doc_fn=strip_unenforced,
                             case_probe_fn=lambda cid, res, info, r: strconv.str_probes(cid, res, info, r))
    scanned = set()
    for pr in fr.probes:
        out = fr.outs.get(pr["pid"])
        meta = pr["meta"]
        if out is None or "harness_error" in out:
            continue
        case = fr.case_of(pr)
        if pr["case"] not in scanned:
            scanned.add(pr["case"])
            for kind, det in syn_scan(fr.results[pr["case"]]):
                rep.violation(kind, det["type"], det, case=case, doc=fr.cases[pr["case"]]["history"][0]["schema"])
        rep.evaluations += 1
        if meta.get("kind") == "str":
            if out.get("panic"):
                rep.violation("conversion_panics", common.site_of(out["panic"]), {"type": meta["type"], "s": meta["s"]},
                              case=case, doc=fr.cases[pr["case"]]["history"][0]["schema"])
                continue
            issues = strconv.check_agreement(out)
            for kind, det in issues:
                rep.violation(kind, ",".join(sorted(k for k in det.get("ok", det.get("values", {})))),
                              dict(det, type=meta["type"], s=meta["s"]), case=case,
                              doc=fr.cases[pr["case"]]["history"][0]["schema"])
            if not issues:
                rep.count("str_probe_agree")
                if "tf_str" in meta["ops"]:
                    rep.nontrivial.add(("str", meta["type"], meta["s"]))
            continue
        if meta["valid_alt"] is None or meta["valid_alt"]:
            rep.count("not_judged(valid under represented constraints)")
            continue
        rep.count("judged_mutants")
        if out.get("panic"):
            rep.violation("invalid_panics", common.site_of(out["panic"]), {"schema": meta["schema"], "instance": meta["text"]},
                          case=case, doc=meta["doc"])
            continue
        if out.get("ok"):
            orc = oracle.Oracle(strip_unenforced(meta["doc"]))
            errs = oracle.leaf_errors(orc.errors(meta["inst"], meta["def"]))
            kws = sorted({e.validator for e in errs})
            cause = internal_unit_extra(fr.results[pr["case"]], meta)
            rep.violation("invalid_accepted", "%s:%s" % (meta["label"], ",".join(kws)),
                          {"def": meta["def"], "schema": meta["schema"], "instance": meta["text"], "label": meta["label"],
                           "keywords": kws, "errors": [e.message[:100] for e in errs[:3]]},
                          case=case, schema=meta["schema"], instance=meta["inst"], doc=meta["doc"], keywords=kws,
                          cause=cause)
            continue
        rep.count("invalid_rejected")
        rep.count("label_" + meta["label"])
        if isinstance(meta["inst"], (dict, list)):
            rep.nontrivial.add((meta["sshape"], meta["label"], meta["vshape"]))
        rep.sample({"schema": meta["schema"], "mutant": meta["inst"], "label": meta["label"], "rejected": True})
    rep.notes["hook_labels_seen"] = fr.hook_counts
    rep.notes["constructors_seen"] = fr.ctor_counts
    return rep.finish(util.Findings(PROP, common.PREDS), min_nontrivial=50 if tier == "quick" else 500)

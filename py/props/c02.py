"""C02 — every schema-valid instance deserialises into the generated type."""
import json

from vlib import instgen, oracle, pipeline, schemagen, util
from vlib.driver import norm
from . import common

PROP = "C02"


def run(tier, seed, replay=None):
    rep = util.Report(PROP, tier, seed)
    rep.rule = ("schemas: seeded grammar F (faithful fragment), each under definitions and located via "
                "add_type({$ref}); instances: schema-directed + boundary + mutants, each classified by "
                "jsonschema Draft7 (integer formats as ranges). Non-trivial: schema uses >=2 constructors and "
                "instance is not a bare scalar; distinct by (schema shape, instance shape).")
    rep.assumptions = common.ORACLE_ASSUMPTIONS
    n_docs = 160 if tier == "quick" else 4000
    n_inst = 10 if tier == "quick" else 14
    docs = common.gen_docs(PROP, seed, n_docs, profile="F", replay=replay)
    fr = common.faithful_run(PROP, rep, docs, seed, n_inst=n_inst, want_invalid=False)
    findings = util.Findings(PROP, common.PREDS)
    for pr in fr.probes:
        out = fr.outs.get(pr["pid"])
        if out is None:
            rep.count("probe_lost")
            continue
        if "harness_error" in out:
            rep.count("probe_harness_error")
            continue
        meta = pr["meta"]
        rep.evaluations += 1
        if not meta["valid"]:
            continue
        rep.count("valid_probes")
        if out.get("panic"):
            rep.violation("valid_panics", common.site_of(out.get("panic")), {
                "schema": meta["schema"], "instance": meta["text"], "panic": out["panic"], "def": meta["def"]},
                case=fr.case_of(pr), schema=meta["schema"], instance=meta["inst"], doc=meta["doc"])
            continue
        if out.get("ok"):
            rep.count("valid_accepted")
            if meta["nontrivial"]:
                rep.nontrivial.add((meta["sshape"], meta["vshape"]))
            rep.sample({"schema": meta["schema"], "instance": meta["inst"], "accepted": True})
        else:
            rep.violation("valid_rejected", common.site_of(out.get("err")), {
                "def": meta["def"], "schema": meta["schema"], "instance": meta["text"], "err": out.get("err")},
                case=fr.case_of(pr), schema=meta["schema"], instance=meta["inst"], doc=meta["doc"],
                err=out.get("err"))
    rep.notes["hook_labels_seen"] = fr.hook_counts
    rep.notes["constructors_seen"] = fr.ctor_counts
    if not fr.hook_counts:
        rep.inconclusive.append("no hook events observed")
    return rep.finish(findings, min_nontrivial=30 if tier == "quick" else 300)

"""String-conversion probes shared by C05 and C11."""
import json

from vlib import instgen, util
from vlib.driver import norm, type_facts, impls_of

GENERIC = ["", "a", "A", "abc", "ABC", "a b", " a", "a ", "é", "中文", "😀", "x" * 12, "x" * 40, "0", "-1", "1.5",
           "true", "null", "foo", "bar", "foobar", "555-1234", "ab", "0f3c", "xy", "x123y", "Ab9",
           "550e8400-e29b-41d4-a716-446655440000", "2020-02-29", "2020-02-30", "2021-03-04T05:06:07Z",
           "10.0.0.1", "::1", "fe80::1", "256.1.1.1",
           # values of string formats that typify leaves as plain strings (and near-misses of the recognised ones)
           "2020-01-02T03:04:05", "2020-01-02 03:04:05", "2020-01-02T03:04:05.123", "2021-03-04T05:06:07+01:00",
           "2021-03-04 05:06:07 UTC", "03:04:05", "03:04:05Z", "P1DT2H", "a@b.example", "http://h/p?q#f", "10.0.0.0/8",
           " 550e8400-e29b-41d4-a716-446655440000", "550e8400-e29b-41d4-a716-446655440000 ", "10.0.0.1 ", "\t::1", " fe80::1",
           "2020-02-29\n", " 2021-03-04T05:06:07Z", "2021-03-04T05:06:07Z ",
           "550E8400-E29B-41D4-A716-446655440000", "550e8400e29b41d4a716446655440000", "1970-01-01", "0001-01-01T00:00:00Z"]


def probe_strings(res, tname, item, r, extra=()):
    out = list(extra)
    if item and item["kind"] == "enum":
        for v in item.get("variants") or []:
            s = v.get("serde") or {}
            wire = s.get("rename") if isinstance(s.get("rename"), str) else v.get("ident")
            ident = v.get("ident")
            out += [wire, ident, wire.upper(), wire.lower(), wire + " ", " " + wire, wire[:-1], wire + "x",
                    wire.replace("-", "_"), wire.replace("_", "-"), wire.swapcase()]
    # lengths around any bound with 1..4 byte characters
    for ch in ("a", "é", "中", "😀"):
        for n in (1, 2, 3, 4, 5, 6, 8, 13):
            out.append(ch * n)
    out += GENERIC
    seen, res_ = set(), []
    for s in out:
        if isinstance(s, str) and s not in seen:
            seen.add(s)
            res_.append(s)
    return res_


STRING_NATIVES = ("::uuid::Uuid", "::chrono::naive::NaiveDate", "::chrono::DateTime<::chrono::offset::Utc>",
                  "::std::net::IpAddr", "::std::net::Ipv4Addr", "::std::net::Ipv6Addr")


def wire_string_types(res):
    """Names of generated types whose wire form is always a JSON string."""
    types = {t["id"]: t for t in res.get("types") or []}
    tf = type_facts(res)
    memo = {}

    def ws(tid, depth=0):
        if tid in memo:
            return memo[tid]
        t = types.get(tid)
        if t is None or depth > 20:
            return False
        memo[tid] = False
        k = t["kind"]
        if k == "string":
            r = True
        elif k == "builtin":
            b_ = norm(t.get("builtin") or "")
            # natives that typify maps string formats to; any OTHER external path can (in documents without replacement
            # or conversion settings) only stand for a string format as well -- it must not escape the comparison
            r = b_ in STRING_NATIVES or (b_.startswith("::") and not b_.startswith("::std::num::") and
                                         "serde_json" not in b_)
        elif k == "newtype":
            r = ws(t["inner"], depth + 1)
        elif k == "enum":
            item = tf.get(norm(t["name"])) or {}
            sd = item.get("serde") or {}
            vs = t.get("variants") or []
            if not vs:
                r = False
            elif sd.get("untagged"):
                r = all(v["kind"] == "tuple" and len(v["types"]) == 1 and ws(v["types"][0], depth + 1) for v in vs)
            elif "tag" in sd:
                r = False
            else:
                r = all(v["kind"] == "simple" for v in vs)
        else:
            r = False
        memo[tid] = r
        return r

    return {norm(t["name"]) for t in types.values() if t["kind"] in ("enum", "newtype") and ws(t["id"])}


def str_probes(cid, res, info, r, def_strings=None):
    """One 'str' probe per (string-convertible type whose wire form is a string, probe string)."""
    tf = type_facts(res)
    wire = wire_string_types(res)
    probes = []
    for tname, ops in info.items():
        if "str" not in ops or tname not in wire:
            continue
        item = tf.get(tname)
        extra = (def_strings or {}).get(tname, ())
        for s in probe_strings(res, tname, item, r, extra):
            probes.append({"case": cid, "ty": tname, "op": "str", "input": s,
                           "meta": {"kind": "str", "type": tname, "s": s, "ops": sorted(ops)}})
    return probes


def check_agreement(out, want_display=False):
    """Returns list of (kind, detail) disagreements for one 'str' probe output."""
    issues = []
    forms = {k: out[k] for k in ("de", "parse", "tf_str", "tf_string", "tf_refstring") if k in out}
    oks = {k: bool(v.get("ok")) for k, v in forms.items()}
    if len(set(oks.values())) > 1:
        issues.append(("conversions_disagree", {"ok": oks}))
    else:
        vals = {k: (v.get("val") or {}).get("text") for k, v in forms.items() if v.get("ok")}
        if len(set(vals.values())) > 1:
            issues.append(("conversion_values_differ", {"values": vals}))
    if want_display:
        for src in ("de", "parse"):
            d = out.get("disp_" + src)
            f = forms.get(src)
            if d is not None and f and f.get("ok"):
                ser = (f.get("val") or {}).get("text")
                try:
                    sv = json.loads(ser) if ser is not None else None
                except Exception:
                    sv = None
                if isinstance(sv, str) and sv != d:
                    issues.append(("display_differs_from_wire", {"display": d, "serialized": sv, "via": src}))
    return issues

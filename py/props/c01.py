"""C01 — every accepted schema yields Rust that renders, parses and compiles."""
import copy
import json
import os
import re

from vlib import pipeline, schemagen, util, vgen
from . import common, workloads

PROP = "C01"


def diag_site(d):
    msg = re.sub(r"`[^`]*`", "`_`", d.get("message") or "")
    msg = re.sub(r"\d+", "N", msg)
    return "%s: %s" % (d.get("code"), msg[:110])


def run(tier, seed, replay=None):
    rep = util.Report(PROP, tier, seed)
    rep.rule = ("cases = (document from grammar G / fixture mutation / small-scope enumeration / schemars-emitted corpus) "
                "x sampled settings x ingestion history; non-trivial: ingested Ok and output has >=2 generated items; "
                "distinct by (sorted hook label multiset, settings signature, history kind)")
    rep.assumptions = [
        "compile check: rustc 1.80.1, cargo build of the output verbatim in its own module against serde, serde_json, "
        "chrono, uuid, regress at the repo's locked versions; warnings allowed, deny-by-default lints are errors",
        "replacement/conversion/map types resolve to ::vrt::support types that implement every trait the settings claim",
        "ingestion Err or panic on documents outside the supported fragment counts as rejection, not as violation",
    ]
    n = {"quick": 220, "thorough": 5000}[tier]
    cases, meta = workloads.c01_cases(seed, n, tier, replay=replay)
    run_ = pipeline.Run(PROP, "main")
    results = run_.vgen(cases)
    common.count_ingest(rep, results)
    hook_counts = {}
    ok_ids = set()
    for cid, res in results.items():
        st = vgen.ingest_status(res)
        m = meta[cid]
        rep.evaluations += 1
        for lab in set(vgen.hook_labels(res)):
            hook_counts[lab] = hook_counts.get(lab, 0) + 1
        if st in ("timeout", "harness"):
            rep.count("inconclusive_cases")
            continue
        if st == "abort":
            ab = res["abort"]
            what = "hang" if ab.get("hang") else "abort"
            if ab.get("phase") in ("render", "post"):
                # ingestion had succeeded; rendering crashed the process or never returned
                rep.violation("render_" + what, common.site_of(str(ab.get("stderr"))[-200:]),
                              {"source": m["source"], "settings": m["settings"], "phase": ab.get("phase")},
                              case=cases_by_id(cases, cid))
            else:
                rep.count("rejected_" + what)  # ungraceful rejection at ingest: not covered by C01
            continue
        if st != "ok":
            rep.count("rejected_" + st)
            if m.get("supported"):
                rep.violation("supported_rejected", common.site_of(res["steps"][-1].get("msg")),
                              {"source": m["source"], "msg": res["steps"][-1].get("msg")},
                              case=cases_by_id(cases, cid))
            continue
        if res.get("render") != "ok":
            rep.violation("render_panic", common.site_of(res.get("render_msg")),
                          {"source": m["source"], "msg": res.get("render_msg"), "settings": m["settings"]},
                          case=cases_by_id(cases, cid))
            continue
        if res.get("render_stable") is False:
            rep.count("render_unstable")
        if res.get("syn") != "ok":
            rep.violation("syn_error", common.site_of(res.get("syn_msg")),
                          {"source": m["source"], "msg": res.get("syn_msg")}, case=cases_by_id(cases, cid))
            continue
        ok_ids.add(cid)
    if ok_ids:
        run_.compile(ids=ok_ids, want_builder=False, want_str=False, want_default=False)
        s2 = run_.s2
        rep.notes["stage2"] = {"cases": len(s2.order), "removed": len(s2.removed), "rounds": s2.rounds,
                               "build_s": round(s2.build_s, 1)}
        for cid in sorted(ok_ids):
            res = results[cid]
            m = meta[cid]
            diags = [d for d in s2.diags.get(cid, []) if d.get("file") == "gen"]
            if diags:
                d0 = diags[0]
                rep.violation("rustc", diag_site(d0), {
                    "source": m["source"], "settings": m["settings"], "history": m["history_kind"],
                    "n_errors": len(diags), "first": d0["rendered"][:1200],
                    "codes": sorted({d.get("code") or "?" for d in diags})},
                    case=cases_by_id(cases, cid), codes=sorted({d.get("code") or "?" for d in diags}),
                    messages=[d.get("message") for d in diags[:20]])
                continue
            if s2.removed.get(cid) == "driver":
                rep.count("driver_compile_error")
                continue
            rep.count("compiled_ok")
            items = [f for f in res.get("facts") or [] if f["kind"] in ("struct", "enum") and f["mod"] == ""]
            if len(items) >= 2:
                labs = tuple(sorted(set(vgen.hook_labels(res))))
                rep.nontrivial.add((labs, m["settings_sig"], m["history_kind"]))
            rep.sample({"source": m["source"], "settings": m["settings"], "history": m["history_kind"],
                        "items": len(items)})
    rep.notes["hook_labels_seen"] = hook_counts
    rep.notes["sources"] = meta_counts(meta)
    if not hook_counts:
        rep.inconclusive.append("no hook events observed")
    findings = util.Findings(PROP, workloads.C01_PREDS)
    return rep.finish(findings, min_nontrivial=40 if tier == "quick" else 400)


def cases_by_id(cases, cid):
    for c in cases:
        if c["id"] == cid:
            return c
    return None


def meta_counts(meta):
    out = {}
    for m in meta.values():
        k = m["source"].split(":")[0]
        out[k] = out.get(k, 0) + 1
    return out

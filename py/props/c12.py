"""C12 — output is a deterministic function of settings and schema content."""
import copy
import json
import os

from vlib import pipeline, schemagen, util, vgen
from . import common, workloads

PROP = "C12"


def permute(x, r):
    """Same JSON value, object members in a different textual order."""
    if isinstance(x, dict):
        ks = list(x.keys())
        r.shuffle(ks)
        return {k: permute(x[k], r) for k in ks}
    if isinstance(x, list):
        return [permute(v, r) for v in x]
    return x


def run(tier, seed, replay=None):
    rep = util.Report(PROP, tier, seed)
    K, P, N = (4, 3, 60) if tier == "quick" else (10, 6, 700)
    rep.rule = ("cases = fixtures + grammar-G documents (many variants / properties / internally tagged enums, "
                "replace/convert settings with several impls); each case rendered in K fresh vgen processes (fresh hash "
                "seeds) x P key-order permutations of the document; in-process to_stream() twice. Non-trivial: output "
                "has >=3 generated items; distinct by case. A two-element hash-order dependence escapes K runs with "
                "probability 2^-(K-1).")
    rep.assumptions = [
        "key order / whitespace variants are produced in the case file; schemars' Map is a BTreeMap in this build, so "
        "order is normalised at parse time — the permutations guard that this stays so",
        "byte comparison of to_stream().to_string() via its SipHash digest plus sha256 of the pretty-printed code",
    ]
    base = []
    fixtures = workloads.load_fixtures()
    for name, doc in fixtures:
        st = {"struct_builder": True}
        if name == "x-rust-type":
            st["crates"] = [{"name": "std", "version": "1.0.0"}]
        base.append(("fx_" + name.replace("-", "_"), doc, st))
    for i in range(N):
        r = util.rng(seed, PROP, "doc", i)
        g = schemagen.SchemaGen(r, profile="G", max_depth=3, avoid_known=False)
        doc = g.document(ndefs=r.randrange(2, 7))
        if i % 2:
            from . import common as _common
            doc = _common.add_defaults(doc, r, p=0.6)   # rendered default values are part of the output
        st, _ = workloads.sample_settings(r, doc)
        if "replacements" in st:
            st["replacements"][0]["impls"] = ["Display", "FromStr", "Default"]
        base.append(("g%04d" % i, doc, st))
    # shapes that pass through the hash collections typify uses internally (duplicate detection, exclusivity
    # tests, name de-duplication), each with enough elements for an iteration order to show
    vals = ["red", "green", "blue", "amber", "violet", "teal", "a-b", "a_b", "a b", "X", "x", "Y-1", "y_1"]
    names = schemagen.PROP_NAMES
    for i in range(max(24, N // 3)):
        r = util.rng(seed, PROP, "hashy", i)
        k = i % 8
        if k == 7:      # intersections of long enumerations (allOf, and $ref with a sibling enum)
            big = ["v%02d" % q for q in range(14)]
            s_ = {"allOf": [{"type": "string", "enum": r.sample(big, 11)}, {"type": "string", "enum": r.sample(big, 10)}]}
        elif k == 6:      # defaults of set-, map- and vec-typed members with several elements
            s_ = {"type": "object", "properties": {
                "tags": {"type": "array", "uniqueItems": True, "items": {"type": "string"}, "default": r.sample(vals, r.randrange(2, 7))},
                "nums": {"type": "array", "uniqueItems": True, "items": {"type": "integer"}, "default": r.sample(range(50), 5)},
                "labels": {"type": "object", "additionalProperties": {"type": "string"},
                           "default": {v_: v_.upper() for v_ in r.sample(vals, 4)}},
                "list": {"type": "array", "items": {"type": "string"}, "default": r.sample(vals, 3)}}}
        elif k == 0:      # oneOf of string-enum / const subschemas with repeated values
            branches = []
            for _ in range(r.randrange(2, 5)):
                branches.append(r.choice([{"type": "string", "enum": r.sample(vals, r.randrange(1, 5))},
                                          {"type": "string", "const": r.choice(vals)}]))
            branches.append({"type": "string", "enum": [branches[0].get("const") or branches[0]["enum"][0], r.choice(vals)]})
            s_ = {"oneOf": branches}
        elif k == 1:    # one enum with repeated values and colliding identifiers
            vs = r.sample(vals, r.randrange(3, 8))
            s_ = {"type": "string", "enum": vs + r.sample(vs, 2)}
        elif k == 2:    # anyOf of objects told apart by their required sets
            bs = []
            for _ in range(r.randrange(2, 5)):
                ps = r.sample(names, r.randrange(2, 5))
                bs.append({"type": "object", "properties": {n_: {"type": r.choice(["string", "integer"])} for n_ in ps},
                           "required": r.sample(ps, r.randrange(1, len(ps) + 1)), "additionalProperties": False})
            s_ = {"anyOf": bs}
        elif k == 3:    # externally tagged union with repeated variant names
            ns = r.sample(vals, 4)
            s_ = {"oneOf": [{"type": "object", "required": [n_], "properties": {n_: {"type": "integer"}},
                             "additionalProperties": False} for n_ in ns + [ns[0]]] +
                  [{"type": "string", "enum": r.sample(vals, 3)}]}
        elif k == 4:    # several discriminator candidates / several common constant members
            tags = r.sample(["kind", "type", "t", "variant", "class"], r.randrange(2, 5))
            s_ = {"oneOf": [{"type": "object", "properties": dict({t_: {"type": "string", "enum": ["v%d" % j]} for t_ in tags},
                                                                   **{"p%d" % j: {"type": "integer"}}),
                             "required": tags} for j in range(r.randrange(2, 5))]}
        else:           # allOf of objects with many members, defaults and a typed extra map
            s_ = {"allOf": [{"type": "object", "properties": {n_: {"type": "string", "default": n_} for n_ in r.sample(names, 4)}},
                            {"type": "object", "properties": {n_: {"type": "integer"} for n_ in r.sample(names, 4)},
                             "additionalProperties": {"type": "string"}}]}
        doc = {"definitions": {"Hashy": s_, "User": {"type": "object", "properties": {"h": {"$ref": "#/definitions/Hashy"}}}}}
        base.append(("h%04d" % i, doc, {"struct_builder": bool(i % 2)}))
    # pairs of documents that contain the textually identical composition over a DIFFERENT referenced definition: what one
    # document produced must not depend on which documents the same process handled before it
    for j, (base_a, base_b) in enumerate([({"first_name": {"type": "string"}}, {"second_flag": {"type": "boolean"}}),
                                          ({"n": {"type": "integer"}}, {"n": {"type": "string"}, "m": {"type": "number"}})]):
        for tag, bp in (("a", base_a), ("b", base_b)):
            doc = {"definitions": {"Base": {"type": "object", "properties": bp},
                                   "Derived": {"allOf": [{"$ref": "#/definitions/Base"},
                                                         {"type": "object", "properties": {"extra": {"type": "integer"}}}]},
                                   "Sib": {"$ref": "#/definitions/Base", "properties": {"own": {"type": "boolean"}}}}}
            base.append(("leak%d%s" % (j, tag), doc, {}))
    opts = {"facts": False, "types": False, "has_impl": False, "hooks": False, "code": True}
    digests = {}   # cid -> {(k,p): (tokens_hash, sha(code))}
    unstable = set()
    skip = set()
    for p in range(P):
        cases = []
        for cid, doc, st in base:
            if cid in skip:
                continue
            d2 = doc if p == 0 else permute(copy.deepcopy(doc), util.rng(seed, PROP, "perm", cid, p))
            cases.append({"id": cid, "settings": st, "history": [{"op": "root", "schema": d2}], "opts": opts})
        for k in range(K):
            run_ = pipeline.Run(PROP, "p%dk%d" % (p, k))
            cases_now = [c for c in cases if c["id"] not in skip]
            results = run_.vgen(cases_now, shards=util.NCPU)
            for cid, res in results.items():
                st = vgen.ingest_status(res)
                if st != "ok" or res.get("render") != "ok":
                    digests.setdefault(cid, {})[(k, p)] = ("status:" + st + ":" + str(res.get("render")), None)
                    if (k, p) == (0, 0) and st in ("abort", "timeout", "panic", "err"):
                        skip.add(cid)   # rejected inputs (often slow hangs) are not re-run K*P times
                    continue
                if res.get("render_stable") is False:
                    unstable.add(cid)
                digests.setdefault(cid, {})[(k, p)] = (res.get("tokens_hash"), util.sha(res.get("code", "")),
                                                      res.get("tokens_len"))
    # one more pass in which every case has different predecessors inside its process: reversed order, two processes
    rev_cases = [{"id": cid, "settings": st, "history": [{"op": "root", "schema": doc}], "opts": opts}
                 for cid, doc, st in reversed(base) if cid not in skip]
    res_rev = pipeline.Run(PROP, "reversed").vgen(rev_cases, shards=2)
    for cid, res in res_rev.items():
        if vgen.ingest_status(res) == "ok" and res.get("render") == "ok" and cid in digests:
            digests[cid][("rev", 0)] = (res.get("tokens_hash"), util.sha(res.get("code", "")), res.get("tokens_len"))
    settings_of = {cid: st for cid, doc, st in base}
    doc_of = {cid: doc for cid, doc, st in base}
    for cid, d in digests.items():
        rep.evaluations += len(d)
        vals = set(d.values())
        case = {"id": cid, "settings": settings_of[cid], "history": [{"op": "root", "schema": doc_of[cid]}]}
        if any(str(v[0]).startswith("status:") for v in vals):
            if len(vals) > 1:
                rep.violation("status_differs", "ingest/render status differs between runs",
                              {"values": sorted(map(str, vals))[:6]}, case=case)
            else:
                rep.count("not_rendered")
            continue
        if cid in unstable:
            rep.violation("rerender_differs", "to_stream() twice on one TypeSpace differs", {}, case=case)
            continue
        if len(vals) > 1:
            byrun = {"k%sp%s" % kp: v[0] for kp, v in sorted(d.items(), key=str)}
            rep.violation("output_differs", "digest differs across processes/permutations",
                          {"digests": byrun}, case=case)
            continue
        rep.count("identical")
        v = next(iter(vals))
        if v[2] and v[2] > 3000:
            rep.nontrivial.add(cid)
        rep.sample({"case": cid, "runs": len(d), "tokens_hash": v[0], "tokens_len": v[2]})
    # a sample through the real cargo-typify binary: its own file reader, two processes x two key orders
    try:
        from . import c15
        c15.build_cli()
        cli_dir = util.workdir(PROP, "cli")
        sample_ids = [cid for cid, d in digests.items() if cid.startswith("fx_") and
                      not any(str(v[0]).startswith("status:") for v in d.values())][:6 if tier == "quick" else 20]
        for cid in sample_ids:
            outs = set()
            for p_ in range(2):
                doc = doc_of[cid] if p_ == 0 else permute(copy.deepcopy(doc_of[cid]), util.rng(seed, PROP, "cliperm", cid))
                path = os.path.join(cli_dir, "%s_%d.json" % (cid, p_))
                with open(path, "w") as f:
                    json.dump(doc, f, indent=None if p_ else 2)
                for k_ in range(2):
                    rc, so, se, dt = util.run([c15.CLI_BIN, "typify", path, "-o", "-"], cwd=cli_dir, timeout=300)
                    rep.evaluations += 1
                    outs.add((rc, util.sha(so)))
            if len(outs) > 1:
                rep.violation("cli_output_differs", "across processes / key orders", {"case": cid, "outputs": sorted(map(str, outs))},
                              case={"id": cid, "settings": {}, "history": [{"op": "root", "schema": doc_of[cid]}]})
            else:
                rep.count("cli_identical")
    except Exception as e:   # the CLI sample is a second observer; its absence is not a verdict
        rep.count("cli_sample_unavailable")
        util.log("[C12] CLI sample skipped: %s" % str(e)[:200])
    # the macro front end: the same invocations expanded in fresh rustc processes (options travel through the macro's own
    # parser and collections before they reach the generator)
    try:
        from . import c15
        mods = {}
        for i in range(6 if tier == "quick" else 24):
            r = util.rng(seed, PROP, "macro", i)
            o = c15.gen_options(r, "macro")
            if i % 2 == 0 and not o["replacements"]:
                o["replacements"].append({"name": "Kind", "type": "::vrt::support::ReplStr", "listed": r.choice([[], ["Default"]])})
            mods["m%03d" % i] = (o, c15.gen_doc(r, o["ext"]))
        KM = 4 if tier == "quick" else 8
        builds = c15.macro_rebuilds(util.workdir(PROP, "macro"), mods, KM)
        for name, (o, doc) in mods.items():
            seen = {(b["streams"].get(name), tuple(b["errors"])) for b in builds}
            rep.evaluations += len(builds)
            if all(b["streams"].get(name) is None for b in builds):
                rep.count("macro_not_expanded")
                continue
            if len(seen) > 1:
                rep.violation("macro_output_differs_between_builds", c15.opt_site(o),
                              {"module": name, "distinct": len(seen), "errors": sorted({e for b in builds for e in b["errors"]})[:4],
                               "invocation": c15.macro_invocation(o, "schemas/%s.json" % name)},
                              case={"id": name, "settings": c15.builder_settings(o), "history": [{"op": "root", "schema": doc}]})
            else:
                rep.count("macro_identical")
                rep.nontrivial.add("macro:" + name)
    except Exception as e:
        rep.count("macro_sample_unavailable")
        util.log("[C12] macro sample skipped: %s" % str(e)[:300])
    rep.notes["K_processes"] = K
    rep.notes["P_permutations"] = P
    return rep.finish(util.Findings(PROP, {}), min_nontrivial=20)

"""C19 — every generated type is public and carries the promised trait surface."""
import json

from vlib import pipeline, schemagen, util, vgen
from vlib.driver import norm, type_facts, named_types, bound_line
from . import common, workloads

PROP = "C19"

BASE = "::std::fmt::Debug + ::std::clone::Clone + ::serde::Serialize + ::serde::de::DeserializeOwned"
CMP = "::std::marker::Copy + ::std::cmp::PartialEq + ::std::cmp::Eq + ::std::cmp::PartialOrd + ::std::cmp::Ord + ::std::hash::Hash"
CMP_STR = "::std::cmp::PartialEq + ::std::cmp::Eq + ::std::cmp::PartialOrd + ::std::cmp::Ord + ::std::hash::Hash"


def bounds_for(cid, res):
    types = {t["id"]: t for t in res.get("types") or []}
    out = []
    for t in named_types(res):
        ident = t["ident"]
        name = norm(t["name"])
        out.append((("base", name), "const _: fn() = || { fn a<T: %s>() {} a::<%s>(); };" % (BASE, ident)))
        out.append((("from_ref", name),
                    "const _: fn() = || { fn a<T>() where for<'a> T: ::std::convert::From<&'a T> {} a::<%s>(); };" % ident))
        if t["kind"] == "enum" and all(v["kind"] == "simple" for v in t["variants"]):
            out.append((("dataless_enum", name), "const _: fn() = || { fn a<T: %s>() {} a::<%s>(); };" % (CMP, ident)))
        if t["kind"] == "newtype" and (types.get(t["inner"]) or {}).get("kind") == "string":
            out.append((("string_newtype", name), "const _: fn() = || { fn a<T: %s>() {} a::<%s>(); };" % (CMP_STR, ident)))
    return out


def run(tier, seed, replay=None):
    rep = util.Report(PROP, tier, seed)
    rep.rule = ("documents from grammar G (incl. empty enums via unsatisfiable allOf, enums over floats, string newtypes whose "
                "inner schema is taken over by a conversion, constrained newtypes) x sampled settings; one compiled trait-bound "
                "assertion per (type, promised trait group) + syn visibility scan. Non-trivial: every named type checked; "
                "distinct by (type kind, bound group, derive set).")
    rep.assumptions = ["rustc 1.80.1 judges the bounds; a failing bound is attributed by file/line to (type, group)",
                       "derive errors inside the output (e.g. Eq on a float) are attributed to this property as well"]
    n = 140 if tier == "quick" else 3500
    cases, meta = [], {}
    for i in range(n):
        r = util.rng(seed, PROP, "doc", i)
        g = schemagen.SchemaGen(r, profile="G" if i % 2 else "C05", max_depth=3, avoid_known=False)
        doc = g.document()
        if r.random() < 0.3:
            doc["definitions"]["NeverEver"] = {"allOf": [{"type": "string"}, {"type": "object"}]}
        if r.random() < 0.3:
            doc["definitions"]["FloatChoice"] = {"oneOf": [{"type": "number"}, {"type": "array", "items": {"type": "number"}}]}
        settings, sig = workloads.sample_settings(r, doc)
        # user derives are the user's responsibility and not part of the promise -- except that asking for a trait
        # every type already carries must not take it away: those requests are kept
        keep = [d for d in settings.pop("derives", []) if d in ("Clone", "Debug", "PartialEq")]
        if keep:
            settings["derives"] = keep
        for p in settings.get("patches", []):
            pk = [d for d in p.pop("derives", []) if d in ("Clone", "Debug", "PartialEq", "PartialOrd", "Hash")]
            if pk:
                p["derives"] = pk
        if r.random() < 0.25:
            settings["conversions"] = [{"schema": {"type": "string"}, "type": "::vrt::support::Repl", "impls": ["Display"]}]
        cid = "d%04d" % i
        cases.append({"id": cid, "settings": settings, "history": [{"op": "root", "schema": doc}],
                      "opts": {"has_impl": False}})
        meta[cid] = {"settings": settings, "doc": doc}
    # constrained newtypes at the ends of their constraint ranges (a bound that excludes nothing, one that admits only "",
    # one-member and empty value lists), as definitions and as inline members
    edge = {"Min0": {"type": "string", "minLength": 0}, "Max0": {"type": "string", "maxLength": 0},
            "Min0Max3": {"type": "string", "minLength": 0, "maxLength": 3}, "EmptyPattern": {"type": "string", "pattern": ""},
            "Min1": {"type": "string", "minLength": 1}, "OneValue": {"type": "string", "enum": ["only"]},
            "NotOne": {"not": {"enum": ["x"]}}, "IntOne": {"type": "integer", "enum": [7]},
            "Pad13": {"type": "array", "items": [{"type": "string"}, {"type": "boolean"}], "additionalItems": {"type": "integer"},
                      "minItems": 13, "maxItems": 13},
            "Pad12": {"type": "array", "items": [{"type": "string"}], "additionalItems": {"type": "integer"}, "minItems": 12, "maxItems": 12},
            "Arr32": {"type": "array", "items": {"type": "integer"}, "minItems": 32, "maxItems": 32},
            "Fmt": {"type": "string", "format": "uuid", "minLength": 0}, "NullableMin0": {"type": ["string", "null"], "minLength": 0}}
    for j, sub in enumerate([list(edge), ["Min0"], ["Max0", "Min0Max3"], ["EmptyPattern", "Min1", "OneValue"], ["NotOne", "IntOne", "Fmt"], ["Pad13"], ["Pad12", "Arr32"]]):
        defs = {k_: edge[k_] for k_ in sub}
        defs["Holder"] = {"type": "object", "properties": {k_.lower(): dict(edge[k_]) for k_ in sub}}
        cid = "edge%02d" % j
        cases.append({"id": cid, "settings": {"struct_builder": j % 2 == 1}, "history": [{"op": "root", "schema": {"definitions": defs}}],
                      "opts": {"has_impl": False}})
        meta[cid] = {"settings": cases[-1]["settings"], "doc": {"definitions": defs}}
    for j, mt in enumerate([None, "::std::collections::BTreeMap", "::vrt::support::VMap"]):
        defs = {"Counts": {"type": "object", "propertyNames": True, "additionalProperties": {"type": "integer"}},
                "Names": {"type": "object", "propertyNames": {}, "additionalProperties": {"type": "string"}},
                "Holder": {"type": "object", "properties": {"c": {"$ref": "#/definitions/Counts"},
                                                            "inline": {"type": "object", "propertyNames": True,
                                                                       "additionalProperties": {"type": "boolean"}}}}}
        st = {"map_type": mt} if mt else {}
        cid = "km%02d" % j
        cases.append({"id": cid, "settings": st, "history": [{"op": "root", "schema": {"definitions": defs}}], "opts": {"has_impl": False}})
        meta[cid] = {"settings": st, "doc": {"definitions": defs}}
    for j, req in enumerate([["PartialOrd"], ["PartialEq"], ["Hash"], ["Ord"], ["Eq"], ["PartialOrd", "Hash"]]):
        defs = {"Label": {"type": "string"}, "Code": {"type": "string", "minLength": 1, "maxLength": 8},
                "Level": {"type": "string", "enum": ["lo", "hi"]}, "Key": {"type": "string", "pattern": "^[a-z]+$"},
                "Holder": {"type": "object", "properties": {"l": {"$ref": "#/definitions/Label"}, "c": {"$ref": "#/definitions/Code"},
                                                            "m": {"type": "object", "additionalProperties": {"type": "integer"},
                                                                  "propertyNames": {"$ref": "#/definitions/Key"}}}}}
        st = {"patches": [{"name": n_, "derives": req} for n_ in ("Label", "Code", "Level", "Key")]}
        cid = "pd%02d" % j
        cases.append({"id": cid, "settings": st, "history": [{"op": "root", "schema": {"definitions": defs}}], "opts": {"has_impl": False}})
        meta[cid] = {"settings": st, "doc": {"definitions": defs}}
    if replay:
        data = json.load(open(replay))
        c = (data.get("first") or data)["case"]
        cases, meta = [c], {c["id"]: {"settings": c.get("settings"), "doc": c["history"][0]["schema"]}}
    run_ = pipeline.Run(PROP, "main")
    results = run_.vgen(cases)
    common.count_ingest(rep, results)
    ok = {cid for cid, res in results.items() if res.get("ingest_ok") and res.get("syn") == "ok"}
    if not ok:
        rep.inconclusive.append("nothing ingested")
        return rep.finish(util.Findings(PROP, {}))
    run_.compile(ids=ok, bounds_fn=bounds_for, want_builder=False, want_str=False, want_default=False)
    s2 = run_.s2
    by_case = {c["id"]: c for c in cases}
    for cid in sorted(ok):
        res = results[cid]
        case = by_case[cid]
        gen_diags = [d for d in s2.diags.get(cid, []) if d.get("file") == "gen"]
        derive_diags = [d for d in gen_diags if "derive" in (d.get("rendered") or "") or d.get("code") in ("E0277", "E0369", "E0204")]
        if derive_diags:
            d0 = derive_diags[0]
            rep.violation("derive_cannot_apply", "%s" % d0.get("code"), {"msg": d0["rendered"][:700]}, case=case)
            continue
        if cid in s2.removed:
            rep.count("compile_failed_other(C01)")
            continue
        failed = {m: d for m, d in s2.bounds_failed.get(cid, [])}
        for (group, name), line in bounds_for(cid, res):
            rep.evaluations += 1
            if (group, name) in failed:
                d = failed.get((group, name))
                rep.violation("bound_fails", group, {"type": name, "group": group, "msg": (d or {}).get("rendered", "")[:600]},
                              case=case, type=name)
            else:
                rep.count("bound_ok_" + group)
        # visibility scan
        for it in res.get("facts") or []:
            if it["kind"] in ("struct", "enum") and it["mod"] == "":
                if it["vis"] != "pub":
                    rep.violation("item_not_pub", it["kind"], {"type": it["name"], "vis": it["vis"]}, case=case)
                constrained = it["kind"] == "struct" and it.get("shape") == "tuple" and \
                    "::serde::Deserialize" not in (it.get("derives") or [])
                if it["kind"] == "struct" and not constrained:
                    for f in it.get("fields") or []:
                        if f.get("vis") != "pub":
                            rep.violation("field_not_pub", it.get("shape"), {"type": it["name"], "field": f}, case=case)
                derives = tuple(sorted(it.get("derives") or []))
                members = it.get("fields") if it["kind"] == "struct" else it.get("variants")
                rep.nontrivial.add((it["kind"], it.get("shape"), derives, len(members or []),
                                    tuple(sorted((it.get("serde") or {}).keys()))))
        if len(rep.samples) < 4:
            rep.sample({"case": cid, "types": [norm(t["name"]) for t in named_types(res)][:8]})
    rep.notes["stage2"] = {"cases": len(s2.order), "removed": len(s2.removed), "rounds": s2.rounds}
    return rep.finish(util.Findings(PROP, common.PREDS), min_nontrivial=25)

"""C03 — round trip keeps declared data, stays schema-valid and is idempotent."""
import json

from vlib import oracle, pipeline, util
from . import common

PROP = "C03"



def adjacent_null_content(schema, v, w, code):
    """Mechanism of KF-C03-5: the oneOf was read as adjacently tagged (tag T, content K), the variant of `v` declares
    K as a required member of type null, typify made it a unit variant, and the only difference between what was read
    and what was written is that `"K": null` is gone."""
    if not (isinstance(schema, dict) and isinstance(schema.get("oneOf"), list) and isinstance(v, dict) and isinstance(w, dict)):
        return False
    gone = [k for k in v if k not in w]
    if len(gone) != 1 or v[gone[0]] is not None or dict(w, **{gone[0]: None}) != v:
        return False
    k = gone[0]
    if ('content = "%s"' % k) not in code:
        return False
    tags = set()
    hit = False
    for b in schema["oneOf"]:
        if not (isinstance(b, dict) and isinstance(b.get("properties"), dict)):
            return False
        others = [n for n in b["properties"] if n != k]
        if len(others) != 1:
            return False
        tags.add(others[0])
        t = b["properties"][others[0]]
        vals = t.get("enum") if isinstance(t, dict) else None
        if not (isinstance(vals, list) and len(vals) == 1):
            return False
        if vals[0] == v.get(others[0]):
            ks = b["properties"].get(k)
            hit = isinstance(ks, dict) and ks.get("type") == "null" and k in (b.get("required") or [])
    return hit and len(tags) == 1 and ('tag = "%s"' % next(iter(tags))) in code

def is_empty(x):
    return x is None or x == [] or x == {}


def num(x):
    return isinstance(x, (int, float)) and not isinstance(x, bool)


def contained(v, w, path=()):
    """prune(v) contained in prune(w): returns None or (path, reason)."""
    if isinstance(v, dict) and isinstance(w, dict):
        for k, x in v.items():
            if k in w:
                r = contained(x, w[k], path + (k,))
                if r:
                    return r
            elif not is_empty(x):
                return (path + (k,), "member dropped")
        return None
    if isinstance(v, list) and isinstance(w, list):
        if len(v) != len(w):
            return (path, "array length %d -> %d" % (len(v), len(w)))
        for i, (a, b) in enumerate(zip(v, w)):
            r = contained(a, b, path + (i,))
            if r:
                return r
        return None
    if num(v) and num(w):
        if v == w or float(v) == float(w):
            return None
        # f32 members print their shortest f32 representation: equal at f32 precision is equal
        import struct
        try:
            if struct.pack("f", float(v)) == struct.pack("f", float(w)):
                return None
        except OverflowError:
            pass
        return (path, "number %r -> %r" % (v, w))
    if type(v) is type(w) and v == w:
        return None
    if is_empty(v) and is_empty(w):
        # an optional empty container/null may come back as another empty form only via omission
        return (path, "empty value changed form %r -> %r" % (v, w)) if v != w else None
    return (path, "value %r -> %r" % (v, w))


def defaults_in(schema_doc):
    out = []
    for s in common.walk_doc(schema_doc):
        if isinstance(s, dict) and "default" in s:
            out.append(s["default"])
    return out


INTRINSIC = [None, [], {}, False, 0, 0.0, ""]
# values of Rust's Default for the types typify emits (what an absent member of a rendered default is filled with)
RUST_ZERO = INTRINSIC + ["1970-01-01T00:00:00Z", "1970-01-01", "00000000-0000-0000-0000-000000000000"]


def added_members(v, w, path=()):
    if isinstance(v, dict) and isinstance(w, dict):
        for k, x in w.items():
            if k not in v:
                yield path + (k,), x
            else:
                yield from added_members(v[k], x, path + (k,))
    elif isinstance(v, list) and isinstance(w, list):
        for i, (a, b) in enumerate(zip(v, w)):
            yield from added_members(a, b, path + (i,))


def filled_from(x, allowed, depth=0):
    """x is an allowed default (possibly with nested defaults filled in), or a container all of whose
    leaves/containers are."""
    if any(x == a and type(x) is type(a) or (num(x) and num(a) and x == a) for a in allowed):
        return True
    if depth < 4 and isinstance(x, (dict, list)):
        for a in allowed:
            if type(a) is type(x) and a not in ({}, []) and contained(a, x) is None and \
                    all(filled_from(y, allowed, depth + 1) for _, y in added_members(a, x)):
                return True
    if isinstance(x, dict):
        return all(filled_from(y, allowed) for y in x.values())
    if isinstance(x, list):
        return all(filled_from(y, allowed) for y in x)
    return False


def strip_nulls(x, names):
    if isinstance(x, dict):
        return {k: strip_nulls(y, names) for k, y in x.items() if not (y is None and k in names)}
    if isinstance(x, list):
        return [strip_nulls(y, names) for y in x]
    return x


def null_positions(x, names, path=()):
    if isinstance(x, dict):
        for k, y in x.items():
            if y is None and k in names:
                yield path + (k,)
            else:
                yield from null_positions(y, names, path + (k,))
    elif isinstance(x, list):
        for i, y in enumerate(x):
            yield from null_positions(y, names, path + (i,))


def without(x, drop, path=()):
    if isinstance(x, dict):
        return {k: without(y, drop, path + (k,)) for k, y in x.items() if path + (k,) not in drop}
    if isinstance(x, list):
        return [without(y, drop, path + (i,)) for i, y in enumerate(x)]
    return x


def present(v, path):
    for k in path:
        if isinstance(v, dict) and k in v:
            v = v[k]
        elif isinstance(v, list) and isinstance(k, int) and k < len(v):
            v = v[k]
        else:
            return False
    return True


def valid_without_nulls(orc, w, dname, names, v=None):
    """Is w valid once nulls written for Box<Option<T>> members are removed? The members are known by wire name only,
    and the same name may elsewhere be a required nullable member whose null must stay: all of them are removed first,
    then up to two are put back."""
    pos = list(null_positions(w, names))
    if v is not None:
        pos = [p for p in pos if not present(v, p)]   # only nulls the round trip wrote, not the instance's own
    if not pos:
        return False
    if len(pos) > 14:
        try:
            return orc.valid(without(w, set(pos)), dname)
        except Exception:
            return False
    keep_sets = [()] + [(p,) for p in pos] + [(p, q) for i, p in enumerate(pos) for q in pos[i + 1:]]
    for keep in keep_sets:
        try:
            if orc.valid(without(w, set(pos) - set(keep)), dname):
                return True
        except Exception:
            return False
    return False


def run(tier, seed, replay=None):
    rep = util.Report(PROP, tier, seed)
    rep.rule = ("schemas from grammar F (incl. recursive $ref, renamed members, defaults); valid instances containing only "
                "declared members; w = to_string(from_str(v)) judged by: oracle-valid, prune(v) contained in prune(w), "
                "added members only defaults, second round trip equal. Non-trivial: schema has an optional, default or "
                "renamed member, or w differs textually from v; distinct by (schema shape, instance shape).")
    rep.assumptions = common.ORACLE_ASSUMPTIONS + [
        "members added by serialisation must be an intrinsic default (null/[]/{}/false/0/\"\") or built from default "
        "values that occur in the definition's schema document",
        "a nested Option<Option<T>> is flattened by typify; null for such members is treated as empty",
    ]
    n_docs = 160 if tier == "quick" else 4000
    docs = common.gen_docs(PROP, seed, n_docs, profile="F", replay=replay, defaults=0.4)
    fr = common.faithful_run(PROP, rep, docs, seed, n_inst=10 if tier == "quick" else 14, want_invalid=False,
                             undeclared=False, skip_mutants=("add_member",))
    for pr in fr.probes:
        out = fr.outs.get(pr["pid"])
        meta = pr["meta"]
        if out is None or "harness_error" in out or not meta["valid"]:
            continue
        rep.evaluations += 1
        if not out.get("ok"):
            rep.count("valid_rejected_or_panic(C02)")   # C02's concern
            util.log("  [C02-concern] def=%s inst=%s err=%s schema=%s" % (meta["def"], meta["text"][:200],
                     out.get("err") or out.get("panic"), json.dumps(meta["schema"])[:600]))
            continue
        case = fr.case_of(pr)
        base = {"def": meta["def"], "schema": meta["schema"], "instance": meta["text"]}
        kw = dict(case=case, schema=meta["schema"], instance=meta["inst"], doc=meta["doc"])
        if out.get("ser_err"):
            rep.violation("serialize_error", common.site_of(out["ser_err"]), dict(base, err=out["ser_err"]), **kw)
            continue
        try:
            w = json.loads(out["w"])
        except Exception as e:
            rep.violation("serialized_not_json", "-", dict(base, w=out.get("w")), **kw)
            continue
        v = meta["inst"]
        orc = oracle.Oracle(meta["doc"])
        try:
            w_valid = orc.valid(w, meta["def"])
        except Exception:
            rep.count("oracle_error")
            continue
        if not w_valid:
            all_errs = oracle.leaf_errors(orc.errors(w, meta["def"]))
            errs = [e.message[:120] for e in all_errs[:3]]
            # mechanism of KF-C03-2: every leaf error is a null under a member emitted as Box<Option<T>>
            boxed = common.boxed_option_fields(fr.results[pr["case"]])
            cause = "boxed_option_null" if boxed and valid_without_nulls(orc, w, meta["def"], boxed, v) else None
            if cause is None:
                # KF-C03-3: the invalid part lies inside schema defaults the round trip added, whose own absent members
                # were filled with Rust's Default ([] under minItems 1, "" under minLength 1, ...)
                adds = list(added_members(v, w))
                dflts = [a for a in defaults_in(meta["doc"]) if isinstance(a, (dict, list)) and a]
                def rust_filled(x):
                    return any(type(a) is type(x) and contained(a, x) is None and
                               all(y in RUST_ZERO for _, y in added_members(a, x)) for a in dflts)
                try:
                    # (nulls written for Box<Option<T>> members elsewhere in w are the other recorded mechanism, KF-C03-2:
                    # they are taken out as well before asking whether the rest is valid)
                    nulls = {p_ for p_ in null_positions(w, boxed) if not present(v, p_)} if boxed else set()
                    if adds and all(rust_filled(x) for _, x in adds) and \
                            orc.valid(without(w, {p_ for p_, _ in adds} | nulls), meta["def"]):
                        cause = "nested_declared_default_replaced_by_rust_default"
                except Exception:
                    pass
            if cause is None and adjacent_null_content(meta["schema"], v, w, fr.results[pr["case"]].get("code") or ""):
                cause = "adjacent_null_content_dropped"
            rep.violation("roundtrip_invalid", common.site_of(errs[0] if errs else "?"),
                          dict(base, w=out["w"], errors=errs, cause=cause), cause=cause, **kw)
            continue
        c = contained(v, w)
        if c:
            rep.violation("data_lost", c[1].split(" ")[0] + "@" + common.site_of(str(c[0][-1:] if c[0] else "")),
                          dict(base, w=out["w"], path=list(c[0]), reason=c[1]), **kw)
            continue
        allowed = INTRINSIC + defaults_in(meta["doc"])
        bad_add = [(p, x) for p, x in added_members(v, w) if not filled_from(x, allowed)]
        if bad_add:
            # KF-C03-3 / KF-C06-2: the added member is a schema default whose own absent members were filled with Rust's
            # Default (epoch, nil uuid, ...) instead of the defaults those members declare
            def rust_filled(x):
                return any(type(a) is type(x) and isinstance(a, (dict, list)) and a and contained(a, x) is None and
                           all(y in RUST_ZERO for _, y in added_members(a, x)) for a in defaults_in(meta["doc"]))
            cause = "nested_declared_default_replaced_by_rust_default" if all(rust_filled(x) for _, x in bad_add) else None
            rep.violation("member_invented", "-", dict(base, w=out["w"], added=[[list(p), x] for p, x in bad_add[:3]], cause=cause),
                          cause=cause, **kw)
            continue
        if out.get("w2_err") or out.get("w2_same") is False:
            rep.violation("not_idempotent", common.site_of(out.get("w2_err") or "w2 != w"),
                          dict(base, w=out["w"], w2=out.get("w2"), err=out.get("w2_err")), **kw)
            continue
        rep.count("roundtrip_ok")
        if "defaults" in meta["used"] or out["w"] != meta["text"] or "nullable_anyof" in meta["used"]:
            rep.nontrivial.add((meta["sshape"], meta["vshape"]))
        rep.sample({"schema": meta["schema"], "v": v, "w": w})
    rep.notes["hook_labels_seen"] = fr.hook_counts
    rep.notes["constructors_seen"] = fr.ctor_counts
    return rep.finish(util.Findings(PROP, common.PREDS), min_nontrivial=30 if tier == "quick" else 300)

"""C09 — allOf means intersection, independent of subschema order."""
import copy
import itertools
import json

from vlib import instgen, oracle, pipeline, schemagen, util, vgen
from vlib.driver import norm
from . import common

PROP = "C09"

PROPS = ["a", "b", "c", "dd", "e-e", "fF"]


def scalar(r):
    return r.choice([{"type": "integer"}, {"type": "string"}, {"type": "boolean"}, {"type": "string", "enum": ["x", "y", "z"]},
                     {"type": "array", "items": {"type": "integer"}}, {"type": "number"},
                     {"type": "object", "properties": {"n": {"type": "integer"}}, "required": ["n"]},
                     {"$ref": "#/definitions/Base"}, {"type": ["string", "null"]}])


def obj_branch(r, names, ap=None):
    props = {n: scalar(r) for n in names}
    req = [n for n in names if r.random() < 0.5]
    s = {"type": "object", "properties": props}
    if req:
        s["required"] = req
    if ap is not None:
        s["additionalProperties"] = ap
    return s


def composition(r):
    """Returns (label, allOf branch list)."""
    k = r.random()
    if k < 0.27:
        n = r.randrange(2, 4)
        shared = r.sample(PROPS, r.randrange(0, 2))
        out = []
        pool = [p for p in PROPS if p not in shared]
        r.shuffle(pool)
        for i in range(n):
            mine = pool[i::n][: r.randrange(0, 3)] + shared
            ap = r.choice([None, None, True, False, {"type": "string"}]) if r.random() < 0.3 else None
            b = obj_branch(r, mine, ap)
            for s_ in shared:   # shared members get compatible (refining) schemas
                b["properties"][s_] = r.choice([{"type": "integer"}, {"type": "integer", "minimum": 0}, {}, {"type": "number"}])
            out.append(b)
        return "objects", out
    if k < 0.42:
        # two branches give the same OPTIONAL member incompatible types, a third one requires it
        pn = r.choice(PROPS)
        t1, t2 = r.sample([{"type": "string"}, {"type": "integer"}, {"type": "boolean"}, {"type": "array", "items": {"type": "string"}}], 2)
        a = {"type": "object", "properties": {pn: t1, "keep": {"type": "integer"}}}
        b = {"type": "object", "properties": {pn: t2}}
        c = {"type": "object", "required": [pn] if r.random() < 0.7 else ["keep"]}
        ap = r.choice([None, True, True])
        if ap is not None:
            r.choice([a, b, c])["additionalProperties"] = ap
        out = [a, b, c]
        if r.random() < 0.3:
            out.append(obj_branch(r, [x for x in r.sample(PROPS, 2) if x != pn]))
        return "conflict", out
    if k < 0.52:
        return "ref+object", [{"$ref": "#/definitions/Base"}, obj_branch(r, r.sample(PROPS, r.randrange(1, 3)))] + \
            ([obj_branch(r, r.sample(PROPS, 1))] if r.random() < 0.3 else [])
    if k < 0.62:
        vals = ["a", "b", "c", "d", "e"]
        return "enums", [{"type": "string", "enum": r.sample(vals, r.randrange(2, 5))},
                         {"type": "string", "enum": r.sample(vals, r.randrange(2, 5))}] + \
            ([{"enum": r.sample(vals, 3)}] if r.random() < 0.3 else [])
    if k < 0.67:
        nums = [0.5, 1, 2.5, 10, 4, -3, 7.25]
        a = {"type": r.choice(["number", "number", "integer"]), "enum": r.sample(nums, r.randrange(3, 6))}
        if a["type"] == "integer":
            a["enum"] = [x for x in a["enum"] if isinstance(x, int)] or [1, 4]
        b = {"enum": r.sample(nums, r.randrange(2, 5))}
        if r.random() < 0.5:
            return "num_enums_ref", [{"$ref": "#/definitions/Scale"}, b]
        return "num_enums", [a, b]
    if k < 0.70:
        # const next to type / enum / const, on either side of the merge
        vals = ["a", "b", "c"]
        c1 = {"const": r.choice(vals)}
        other = r.choice([{"type": "string"}, {"type": "string", "enum": r.sample(vals, 2)}, {"const": r.choice(vals)},
                          {"type": "string", "minLength": 1}])
        return "consts", [other, c1] if r.random() < 0.5 else [c1, other]
    if k < 0.72:
        return "types", [{"type": r.choice([["string", "integer"], ["integer", "null"], "integer"])},
                         {"type": r.choice([["integer", "boolean"], "integer", ["string", "null"]])}]
    if k < 0.86:
        # positional (tuple-form) arrays of different lengths with their own additionalItems
        leaf = [{"type": "integer"}, {"type": "string"}, {"type": "boolean"}, {}]
        n1, n2 = r.randrange(1, 3), r.randrange(2, 4)
        a = {"type": "array", "items": [r.choice(leaf[:3]) for _ in range(n1)]}
        b = {"type": "array", "items": [a["items"][i] if i < n1 and r.random() < 0.7 else r.choice(leaf) for i in range(n2)]}
        ai = r.choice([None, False, {"type": "string"}, {"type": "integer"}, True])
        if ai is not None:
            a["additionalItems"] = ai
        if r.random() < 0.3:
            b["additionalItems"] = r.choice([False, {"type": "string"}])
        if r.random() < 0.8:
            b["minItems"] = b["maxItems"] = n2
        if r.random() < 0.45:
            # ... or against an ordinary array whose single item schema admits every position
            a = {"type": "array", "items": r.choice([{"type": ["string", "integer", "boolean"]}, {}, {"type": "integer"}])}
            if "additionalItems" not in b and r.random() < 0.6:
                b["additionalItems"] = False
            return "tuple+items", [a, b]
        return "tuples", [a, b]
    if k < 0.88:
        # the same items schema on both sides, bounds / uniqueness on one or both
        it = r.choice([{"type": "number"}, {"type": "string"}, {"type": "integer"}])
        a = {"type": "array", "items": dict(it)}
        b = {"type": "array", "items": dict(it)}
        kind = r.randrange(4)
        if kind == 0:
            b["minItems"] = b["maxItems"] = 2
        elif kind == 1:
            a["minItems"], b["maxItems"] = 3, 2          # contradictory: unsatisfiable
        elif kind == 2:
            b["uniqueItems"] = True
            b["minItems"] = 1
        else:
            a["maxItems"], b["minItems"] = 3, 3
        return "array_bounds", [a, b]
    if k < 0.9:
        return "arrays", [{"type": "array", "items": obj_branch(r, r.sample(PROPS, 2))},
                          {"type": "array", "items": obj_branch(r, r.sample(PROPS, 1))}]
    return "oneof", [{"oneOf": [{"type": "object", "properties": {"k": {"type": "string", "enum": ["A"]}, "x": {"type": "integer"}},
                                 "required": ["k", "x"]},
                                {"type": "object", "properties": {"k": {"type": "string", "enum": ["B"]}}, "required": ["k"]}]},
                     obj_branch(r, r.sample(["a", "b", "c"], r.randrange(1, 3)))]


BASE = {"type": "object", "properties": {"base_id": {"type": "integer"}, "tag": {"type": "string"}}, "required": ["base_id"]}
SCALE = {"type": "number", "enum": [0.5, 1, 2.5, 10]}


def candidates(r, branches, defs):
    ig = instgen.InstGen(r, defs, undeclared=False)
    per = []
    for b in branches:
        per.append(ig.instances(b, 3))
    out = []
    for vs in per:
        out += vs
    # unions of per-branch object instances
    for combo in itertools.islice(itertools.product(*[p or [None] for p in per]), 12):
        if all(isinstance(c, dict) for c in combo):
            u = {}
            for c in combo:
                for k, v in c.items():
                    u.setdefault(k, v)
            out.append(u)
    try:
        out += ig.instances({"allOf": branches}, 4)
    except Exception:
        pass
    muts = []
    for v in out[:6]:
        for lab, path, m in instgen.mutants(v, r, limit=4):
            muts.append(m)
    out += muts
    seen, res = set(), []
    for v in out:
        try:
            t = instgen.to_text(v)
        except Exception:
            continue
        if t not in seen and pipeline.within_i64(v):
            seen.add(t)
            res.append(v)
    return res[:40]


def run(tier, seed, replay=None):
    rep = util.Report(PROP, tier, seed)
    rep.rule = ("allOf compositions (objects with overlapping/disjoint members and required unions, additionalProperties "
                "false/true/schema, $ref members, enum and type restrictions, array items, nested disjoint oneOf) in EVERY "
                "permutation of the subschema list, one generator run per permutation; candidates = per-branch instances, unions, "
                "mutants, each classified by the oracle on the original allOf. Non-trivial: composition accepted by typify with "
                ">=2 branches and >=1 valid candidate; distinct by (composition shape).")
    rep.assumptions = common.ORACLE_ASSUMPTIONS + [
        "a permutation that typify rejects (Err/panic) while another is accepted is reported (perm_ingest_differs)",
        "'merge reports never' is observed through the convert_never hook event of that run",
    ]
    n = 220 if tier == "quick" else 3000
    comps = []
    for i in range(n):
        r = util.rng(seed, PROP, "comp", i)
        label, branches = composition(r)
        comps.append((i, label, branches))
    import os
    cdir = os.path.join(util.VERIF, "corpus", PROP)
    for k_, fn in enumerate(sorted(os.listdir(cdir)) if os.path.isdir(cdir) else []):
        if fn.endswith(".json"):
            comps.append((9000 + k_, "corpus:" + fn[:-5], json.load(open(os.path.join(cdir, fn)))["branches"]))
    if replay:
        data = json.load(open(replay))
        f = data.get("first") or data
        comps = [(0, f.get("label", "replay"), f["branches"])]
    cases, meta = [], {}
    for i, label, branches in comps:
        perms = list(itertools.permutations(range(len(branches))))
        for pi, perm in enumerate(perms[:6]):
            doc = {"definitions": {"Base": BASE, "Scale": SCALE, "Comp": {"allOf": [branches[j] for j in perm]}}}
            cid = "a%04d_p%d" % (i, pi)
            cases.append({"id": cid, "settings": {}, "history": [{"op": "root", "schema": doc}]})
            meta[cid] = {"comp": i, "perm": perm, "label": label, "branches": branches, "doc": doc}
    run_ = pipeline.Run(PROP, "main")
    results = run_.vgen(cases)
    ok = {cid for cid, res in results.items() if res.get("ingest_ok") and res.get("syn") == "ok"}
    groups = {}
    for cid, m in meta.items():
        groups.setdefault(m["comp"], []).append(cid)
    if ok:
        run_.compile(ids=ok, want_builder=False, want_str=False, want_default=False)
    probes = []
    cand_of = {}
    for gi, cids in groups.items():
        m0 = meta[cids[0]]
        r = util.rng(seed, PROP, "cand", gi)
        cands = candidates(r, m0["branches"], {"Base": BASE, "Scale": SCALE})
        cand_of[gi] = cands
        for cid in cids:
            if cid not in ok or cid in run_.s2.removed:
                continue
            tname = norm(((results[cid].get("defs") or {}).get("Comp") or {}).get("name") or "")
            if tname not in run_.info.get(cid, {}):
                continue
            for k, v in enumerate(cands):
                probes.append({"pid": len(probes), "case": cid, "ty": tname, "op": "de", "input": instgen.to_text(v), "k": k})
    outs, ab, to, sk = (run_.probe([{k: v for k, v in p.items() if k != "k"} for p in probes]) if probes else ({}, {}, [], []))
    byc = {}
    for p in probes:
        byc.setdefault(p["case"], {})[p["k"]] = outs.get(p["pid"])
    for gi, cids in groups.items():
        m0 = meta[cids[0]]
        rep.evaluations += 1
        kw = dict(case={"id": cids[0], "settings": {}}, branches=m0["branches"], label=m0["label"], doc=m0["doc"])
        sts = {cid: vgen.ingest_status(results[cid]) for cid in cids}
        simple = {cid: ("ok" if s == "ok" else "rejected") for cid, s in sts.items()}
        if len(set(simple.values())) > 1:
            rep.violation("perm_ingest_differs", m0["label"], {"branches": m0["branches"],
                          "status": {str(meta[c]["perm"]): sts[c] for c in cids}}, **kw)
            continue
        if simple[cids[0]] != "ok":
            rep.count("rejected_" + m0["label"])
            continue
        comp_removed = [c for c in cids if c in run_.s2.removed]
        if comp_removed:
            if len(comp_removed) != len(cids):
                rep.violation("perm_compile_differs", m0["label"], {"branches": m0["branches"]}, **kw)
            else:
                rep.count("compile_failed(C01)")
            continue
        cands = cand_of[gi]
        orc = oracle.Oracle(m0["doc"])
        verdicts = [orc.valid_or_none(v, "Comp") for v in cands]
        never = any(h.get("k") == "arm" and h.get("d") == "never" for h in results[cids[0]].get("hooks") or [])
        vecs = {}
        for cid in cids:
            vec = []
            for k in range(len(cands)):
                o = (byc.get(cid) or {}).get(k)
                vec.append(None if o is None else (bool(o.get("ok")), o.get("w") if o.get("ok") else None))
            vecs[cid] = vec
        if not any(v is not None for vec in vecs.values() for v in vec):
            rep.count("no_probe_results")
            continue
        # valid => accepted under every permutation
        bad = False
        for k, v in enumerate(cands):
            if verdicts[k]:
                for cid in cids:
                    o = vecs[cid][k]
                    if o is not None and not o[0]:
                        err = ((byc.get(cid) or {}).get(k) or {}).get("err")
                        empties = [f["name"] for f in results[cid].get("facts") or []
                                   if f["kind"] == "enum" and f["mod"] == "" and not f.get("variants")]
                        has_oneof = any(isinstance(b, dict) and "oneOf" in b for b in m0["branches"])
                        cause = "oneof_distribution_yields_never" if has_oneof and empties else None
                        if v == [] and "Comp" in empties and all(isinstance(b, dict) and b.get("type") == "array"
                                                                 for b in m0["branches"]):
                            cause = "unsatisfiable_items_make_array_never"
                        rep.violation("valid_rejected", m0["label"] + ":" + common.site_of(err),
                                      {"branches": [m0["branches"][j] for j in meta[cid]["perm"]], "instance": v, "err": err,
                                       "uninhabited_types": empties}, cause=cause, **kw)
                        bad = True
                        break
            if bad:
                break
        if bad:
            continue
        # order independence of acceptance and of the round trip
        ref = vecs[cids[0]]
        for cid in cids[1:]:
            diff = [k for k in range(len(cands)) if ref[k] is not None and vecs[cid][k] is not None and
                    (ref[k][0] != vecs[cid][k][0] or not same_json(ref[k][1], vecs[cid][k][1]))]
            if diff:
                k = diff[0]
                rep.violation("order_dependent", m0["label"],
                              {"branches": m0["branches"], "perm_a": meta[cids[0]]["perm"], "perm_b": meta[cid]["perm"],
                               "instance": cands[k], "a": ref[k], "b": vecs[cid][k]}, **kw)
                bad = True
                break
        if bad:
            continue
        if never and not any(verdicts):
            acc = [cands[k] for k in range(len(cands)) if ref[k] and ref[k][0]]
            if acc:
                rep.violation("never_but_permissive", m0["label"], {"branches": m0["branches"], "accepted": acc[:3]}, **kw)
                continue
            rep.count("unsatisfiable_uninhabited")
        rep.count("ok_" + m0["label"])
        if any(verdicts):
            rep.nontrivial.add(pipeline.schema_shape({"allOf": m0["branches"]}))
        if len(rep.samples) < 4:
            rep.sample({"branches": m0["branches"], "perms": len(cids), "candidates": len(cands), "valid": sum(1 for v in verdicts if v)})
    return rep.finish(util.Findings(PROP, dict(common.PREDS)), min_nontrivial=15)


def same_json(a, b):
    if a is None or b is None:
        return a == b
    try:
        return json.loads(a) == json.loads(b)
    except Exception:
        return a == b

"""Instance oracle: jsonschema Draft7Validator over the ORIGINAL document, after
one pre-pass that reads recognised integer formats as ranges (as the properties
state), with a strict FormatChecker for the string formats typify maps to
native types."""
import copy
import ipaddress
import re

import jsonschema
from jsonschema import Draft7Validator, FormatChecker

INT_FORMATS = {
    "int8": (-2**7, 2**7 - 1), "uint8": (0, 2**8 - 1),
    "int16": (-2**15, 2**15 - 1), "uint16": (0, 2**16 - 1),
    "int": (-2**31, 2**31 - 1), "int32": (-2**31, 2**31 - 1),
    "uint": (0, 2**32 - 1), "uint32": (0, 2**32 - 1),
    "int64": (-2**63, 2**63 - 1), "uint64": (0, 2**64 - 1),
}
RUST_INT_RANGE = {
    "i8": INT_FORMATS["int8"], "u8": INT_FORMATS["uint8"], "i16": INT_FORMATS["int16"],
    "u16": INT_FORMATS["uint16"], "i32": INT_FORMATS["int32"], "u32": INT_FORMATS["uint32"],
    "i64": INT_FORMATS["int64"], "u64": INT_FORMATS["uint64"],
    "::std::num::NonZeroU8": (1, 2**8 - 1), "::std::num::NonZeroU16": (1, 2**16 - 1),
    "::std::num::NonZeroU32": (1, 2**32 - 1), "::std::num::NonZeroU64": (1, 2**64 - 1),
}

SUBSCHEMA_KEYS_ONE = ("not", "if", "then", "else", "additionalProperties", "additionalItems",
                      "contains", "propertyNames")
SUBSCHEMA_KEYS_LIST = ("allOf", "anyOf", "oneOf")
SUBSCHEMA_KEYS_MAP = ("properties", "patternProperties", "definitions")


def map_schema(s, f):
    """Apply f bottom-up to every subschema position."""
    if not isinstance(s, dict):
        return s
    out = dict(s)
    for k in SUBSCHEMA_KEYS_ONE:
        if isinstance(out.get(k), dict):
            out[k] = map_schema(out[k], f)
    for k in SUBSCHEMA_KEYS_LIST:
        if isinstance(out.get(k), list):
            out[k] = [map_schema(x, f) for x in out[k]]
    for k in SUBSCHEMA_KEYS_MAP:
        if isinstance(out.get(k), dict):
            out[k] = {n: map_schema(x, f) for n, x in out[k].items()}
    if isinstance(out.get("items"), dict):
        out["items"] = map_schema(out["items"], f)
    elif isinstance(out.get("items"), list):
        out["items"] = [map_schema(x, f) for x in out["items"]]
    return f(out)


def _int_format_to_range(s):
    t = s.get("type")
    is_int = t == "integer" or (isinstance(t, list) and "integer" in t)
    fmt = s.get("format")
    if is_int and fmt in INT_FORMATS:
        lo, hi = INT_FORMATS[fmt]
        s = dict(s)
        # bounds only constrain numbers, so this is safe for [integer, null]
        s["minimum"] = max(lo, s["minimum"]) if "minimum" in s else lo
        s["maximum"] = min(hi, s["maximum"]) if "maximum" in s else hi
    return s


def prepass(doc):
    return map_schema(copy.deepcopy(doc), _int_format_to_range)


UUID_RE = re.compile(r"^[0-9a-f]{8}-[0-9a-f]{4}-[0-9a-f]{4}-[0-9a-f]{4}-[0-9a-f]{12}$")
DATE_RE = re.compile(r"^\d{4}-\d{2}-\d{2}$")
DATETIME_RE = re.compile(r"^\d{4}-\d{2}-\d{2}T\d{2}:\d{2}:\d{2}Z$")

checker = FormatChecker(formats=())


@checker.checks("uuid")
def _uuid(v):
    return not isinstance(v, str) or bool(UUID_RE.match(v))


@checker.checks("date")
def _date(v):
    if not isinstance(v, str):
        return True
    if not DATE_RE.match(v):
        return False
    import datetime
    try:
        datetime.date.fromisoformat(v)
        return True
    except ValueError:
        return False


@checker.checks("date-time")
def _datetime(v):
    if not isinstance(v, str):
        return True
    if not DATETIME_RE.match(v):
        return False
    import datetime
    try:
        datetime.datetime.strptime(v, "%Y-%m-%dT%H:%M:%SZ")
        return True
    except ValueError:
        return False


def _ip(v, cls):
    if not isinstance(v, str):
        return True
    try:
        a = cls(v)
    except ValueError:
        return False
    return str(a) == v  # canonical spelling only


@checker.checks("ip")
def _ipany(v):
    return _ip(v, ipaddress.ip_address)


@checker.checks("ipv4")
def _ipv4(v):
    return _ip(v, ipaddress.IPv4Address)


@checker.checks("ipv6")
def _ipv6(v):
    return _ip(v, ipaddress.IPv6Address)


class Oracle:
    """Validator for instances of one definition (or of the root) of a document."""

    def __init__(self, doc):
        self.doc = prepass(doc)
        self._cache = {}

    def validator(self, ref=None):
        if ref not in self._cache:
            if ref is None:
                schema = self.doc
            else:
                schema = {"$ref": "#/definitions/" + ref.replace("~", "~0").replace("/", "~1"),
                          "definitions": self.doc.get("definitions", {})}
            self._cache[ref] = Draft7Validator(schema, format_checker=checker)
        return self._cache[ref]

    def valid(self, v, ref=None):
        return self.validator(ref).is_valid(v)

    def valid_or_none(self, v, ref=None):
        """None when the oracle itself fails (ill-founded schemas such as N = anyOf[N, null] recurse forever)."""
        try:
            return self.validator(ref).is_valid(v)
        except Exception:
            return None

    def errors(self, v, ref=None):
        return list(self.validator(ref).iter_errors(v))


def valid_against(schema, v, defs=None):
    s = dict(schema) if isinstance(schema, dict) else schema
    if defs and isinstance(s, dict):
        s = dict(s)
        s["definitions"] = defs
    if isinstance(s, dict):
        s = prepass(s)
    return Draft7Validator(s, format_checker=checker).is_valid(v)


def leaf_errors(errs):
    """Flatten error trees (through anyOf/oneOf contexts) into leaf errors."""
    out = []
    for e in errs:
        if e.context:
            out.extend(leaf_errors(e.context))
        else:
            out.append(e)
    return out

"""Schema-directed instance generation, boundary variants and mutators.
Nothing here is trusted: every instance is classified by the oracle."""
import copy
import json

from .oracle import INT_FORMATS
from .schemagen import PATTERNS

UNI_CHARS = ["a", "Z", "7", "é", "ß", "Ж", "中", "😀", "𝔘", " ", "-", "_"]


class GenFail(Exception):
    pass


def to_text(v):
    """JSON text for an instance (integers as integers, floats with short decimals)."""
    return json.dumps(v, ensure_ascii=False, allow_nan=False)


class InstGen:
    def __init__(self, rng, defs, hard_depth=12, undeclared=True):
        self.undeclared = undeclared   # may add members the schema does not declare (open objects)
        self.r = rng
        self.defs = defs
        self.hard = hard_depth

    def pick(self, xs):
        return xs[self.r.randrange(len(xs))]

    def chance(self, p):
        return self.r.random() < p

    def resolve(self, ref):
        name = ref.rsplit("/", 1)[-1]
        if name not in self.defs:
            raise GenFail("unresolved " + ref)
        return self.defs[name]

    def any_json(self, d):
        k = self.r.randrange(7 if d < 2 else 5)
        return [None, True, 7, "any", -3, [1, "x"], {"k": "v"}][k]

    def string_for(self, s, minimal):
        lo = s.get("minLength", 0)
        hi = s.get("maxLength")
        pat = s.get("pattern")
        fmt = s.get("format")
        if fmt == "uuid":
            return "%08x-%04x-%04x-%04x-%012x" % (self.r.getrandbits(32), self.r.getrandbits(16),
                                                self.r.getrandbits(16), self.r.getrandbits(16),
                                                self.r.getrandbits(48))
        if fmt == "date":
            return "%04d-%02d-%02d" % (self.r.randrange(1970, 2100), self.r.randrange(1, 13), self.r.randrange(1, 29))
        if fmt == "date-time":
            return "%04d-%02d-%02dT%02d:%02d:%02dZ" % (self.r.randrange(1970, 2100), self.r.randrange(1, 13),
                                                         self.r.randrange(1, 29), self.r.randrange(24),
                                                         self.r.randrange(60), self.r.randrange(60))
        if fmt == "ipv4" or (fmt == "ip" and self.chance(0.5)):
            return ".".join(str(self.r.randrange(256)) for _ in range(4))
        if fmt in ("ipv6", "ip"):
            import ipaddress
            return str(ipaddress.IPv6Address(self.r.getrandbits(128)))
        if pat is not None:
            for p, good, bad in PATTERNS:
                if p == pat:
                    cands = [g for g in good if len(g) >= lo and (hi is None or len(g) <= hi)]
                    if cands:
                        return self.pick(cands)
                    return self.pick(good)
            return "abc"
        n = lo if minimal else lo + self.r.randrange(0, 3)
        if hi is not None:
            n = min(n, hi)
        return "".join(self.pick(UNI_CHARS) for _ in range(n))

    def int_for(self, s):
        lo, hi = -2**40, 2**40
        fmt = s.get("format")
        if fmt in INT_FORMATS:
            lo, hi = INT_FORMATS[fmt]
        if "minimum" in s:
            lo = max(lo, int(s["minimum"]))
        if "exclusiveMinimum" in s:
            lo = max(lo, int(s["exclusiveMinimum"]) + 1)
        if "maximum" in s:
            hi = min(hi, int(s["maximum"]))
        if "exclusiveMaximum" in s:
            hi = min(hi, int(s["exclusiveMaximum"]) - 1)
        if lo > hi:
            raise GenFail("empty int range")
        cands = [lo, hi, 0, 1, -1, lo + 1, hi - 1, 42, -17]
        cands = [c for c in cands if lo <= c <= hi]
        return self.pick(cands)

    def inst(self, s, d=0, minimal=False):
        if d > self.hard:
            raise GenFail("too deep")
        minimal = minimal or d > 5
        if s is True or s == {}:
            return self.any_json(d)
        if s is False:
            raise GenFail("false schema")
        if "$ref" in s:
            v = self.inst(self.resolve(s["$ref"]), d + 1, minimal)
            if isinstance(v, dict) and isinstance(s.get("properties"), dict):
                # sibling keywords of a $ref (merged by typify, ignored by draft-07): members declared there
                for k, ps in s["properties"].items():
                    if k not in v and (not minimal and self.chance(0.7)):
                        try:
                            v[k] = self.inst(ps, d + 1, minimal)
                        except GenFail:
                            pass
            return v
        if "const" in s:
            return copy.deepcopy(s["const"])
        if "enum" in s:
            return copy.deepcopy(self.pick(s["enum"]))
        for key in ("oneOf", "anyOf"):
            if key in s:
                branches = s[key]
                order = list(range(len(branches)))
                self.r.shuffle(order)
                if minimal:
                    # prefer null / scalar branches to terminate recursion
                    order.sort(key=lambda i: 0 if branches[i] == {"type": "null"} else
                               (1 if isinstance(branches[i], dict) and branches[i].get("type") in
                                ("string", "integer", "boolean", "number") else 2))
                last = None
                for i in order:
                    try:
                        return self.inst(branches[i], d + 1, minimal)
                    except GenFail as e:
                        last = e
                raise last or GenFail("no branch")
        if "allOf" in s:
            parts = [self.inst(b, d + 1, minimal) for b in s["allOf"]]
            if all(isinstance(p, dict) for p in parts):
                out = {}
                for p in parts:
                    for k, v in p.items():
                        out.setdefault(k, v)
                return out
            return parts[0]
        if "not" in s:
            n = s["not"]
            deny = n.get("enum", []) if isinstance(n, dict) else []
            if deny and all(isinstance(x, str) for x in deny):
                c = "ok_value"
                while c in deny:
                    c += "_"
                return c
            if deny and all(isinstance(x, (int, float)) and not isinstance(x, bool) for x in deny):
                c = 12345
                while c in deny:
                    c += 1
                return c
            raise GenFail("unsupported not")
        t = s.get("type")
        if isinstance(t, list):
            if minimal and "null" in t:
                return None
            t = self.pick(t)
            s = dict(s)
            s["type"] = t
        if t is None:
            if "properties" in s or "additionalProperties" in s or "required" in s:
                t = "object"
            elif "items" in s:
                t = "array"
            elif "minLength" in s or "maxLength" in s or "pattern" in s:
                t = "string"
            else:
                return self.any_json(d)
        if t == "null":
            return None
        if t == "boolean":
            return self.chance(0.5)
        if t == "integer":
            return self.int_for(s)
        if t == "number":
            return self.pick([0.5, -1.25, 2.5, 1024.5, 0.25, 7, -2])  # no integral floats: the oracle reads 3.0 as an integer
        if t == "string":
            return self.string_for(s, minimal)
        if t == "array":
            items = s.get("items")
            lo = s.get("minItems", 0)
            hi = s.get("maxItems")
            if isinstance(items, list):
                n = max(lo, len(items)) if hi is None else hi
                out = []
                for i in range(n):
                    if i < len(items):
                        out.append(self.inst(items[i], d + 1, minimal))
                    else:
                        ai = s.get("additionalItems", True)
                        out.append(self.inst(ai, d + 1, minimal))
                return out
            n = lo if minimal else lo + self.r.randrange(0, 3)
            if hi is not None:
                n = min(max(n, lo), hi)
            isch = items if items is not None else True
            out = []
            for _ in range(n):
                v = self.inst(isch, d + 1, minimal)
                if s.get("uniqueItems") and v in out:
                    continue
                out.append(v)
            if len(out) < lo:
                raise GenFail("could not reach minItems")
            return out
        if t == "object":
            props = s.get("properties", {})
            req = set(s.get("required", []))
            out = {}
            for k, ps in props.items():
                if k in req or (not minimal and self.chance(0.6)):
                    try:
                        if isinstance(ps, dict) and "default" in ps and ps.get("type") in ("object", "array") and \
                                not ps.get("properties") and not ps.get("minItems") and self.chance(0.4):
                            out[k] = {} if ps["type"] == "object" else []   # present but empty, default is not
                            continue
                        out[k] = self.inst(ps, d + 1, minimal)
                    except GenFail:
                        if k in req:
                            raise
            for k in req:
                if k not in out:
                    # required but without a schema of its own: it falls under additionalProperties
                    ap_ = s.get("additionalProperties")
                    out[k] = self.inst(ap_, d + 1, minimal) if isinstance(ap_, dict) else self.any_json(d + 1)
            ap = s.get("additionalProperties")
            pp = s.get("patternProperties")
            if pp and not minimal:
                for pat, ps in pp.items():
                    names = {"^[a-z]+$": ["abc", "k"], "^x-": ["x-one", "x-2"]}.get(pat, [])
                    for nm in names[: self.r.randrange(0, 3)]:
                        out[nm] = self.inst(ps, d + 1, minimal)
            elif isinstance(s.get("propertyNames"), dict) and not minimal and not pp:
                pn = s["propertyNames"]
                from .schemagen import PATTERNS
                names = next((good for pat, good, bad in PATTERNS if pat == pn.get("pattern")), ["k0", "ab", "zeta"])
                names = [n_ for n_ in names if pn.get("minLength", 0) <= len(n_) <= pn.get("maxLength", 99)]
                for nm in names[: self.r.randrange(0, 3)]:
                    if nm not in props:
                        out[nm] = self.inst(ap if isinstance(ap, dict) else True, d + 1, minimal)
            elif isinstance(ap, dict) and not minimal and not pp:
                for i in range(self.r.randrange(0, 3)):
                    nm = self.pick(["extra", "k%d" % i, "zz top", "ünï"])
                    if nm not in props:
                        out[nm] = self.inst(ap, d + 1, minimal)
            elif self.undeclared and (ap is None or ap is True) and not pp and not minimal and self.chance(0.25):
                nm = "unknown_extra_member"
                if nm not in props:
                    out[nm] = self.pick([1, "x", None, [1], {"a": 1}])
            return out
        raise GenFail("unknown type %r" % (t,))

    def instances(self, s, n):
        out = []
        seen = set()
        tries = 0
        while len(out) < n and tries < n * 4:
            tries += 1
            try:
                v = self.inst(s, 0, minimal=(tries % 5 == 0))
            except (GenFail, RecursionError):
                continue
            k = to_text(v)
            if k not in seen:
                seen.add(k)
                out.append(v)
        return out


# -- mutation --------------------------------------------------------------

def paths(v, p=()):
    yield p, v
    if isinstance(v, dict):
        for k, x in v.items():
            yield from paths(x, p + (k,))
    elif isinstance(v, list):
        for i, x in enumerate(v):
            yield from paths(x, p + (i,))


def set_path(v, p, new):
    v = copy.deepcopy(v)
    if not p:
        return new
    cur = v
    for k in p[:-1]:
        cur = cur[k]
    cur[p[-1]] = new
    return v


def del_path(v, p):
    v = copy.deepcopy(v)
    cur = v
    for k in p[:-1]:
        cur = cur[k]
    del cur[p[-1]]
    return v


def mutants(v, rng, limit=12):
    """Generic single-edit mutants of an instance: (label, path, mutant)."""
    out = []
    ps = list(paths(v))
    rng.shuffle(ps)
    for p, x in ps:
        if len(out) >= limit:
            break
        if isinstance(x, dict):
            if x:
                k = rng.choice(sorted(x.keys()))
                out.append(("del_member", p + (k,), del_path(v, p + (k,))))
            y = dict(x)
            y["zz_added_member"] = 1
            out.append(("add_member", p, set_path(v, p, y)))
        elif isinstance(x, list):
            if x:
                out.append(("drop_item", p, set_path(v, p, x[:-1])))
            out.append(("add_item", p, set_path(v, p, x + [x[-1] if x else 0])))
        elif isinstance(x, bool):
            out.append(("swap_type", p, set_path(v, p, "true" if x else 0)))
        elif isinstance(x, int):
            out.append(("swap_type", p, set_path(v, p, str(x))))
            out.append(("int_edge", p, set_path(v, p, rng.choice([-1, 0, 256, 2**31, 2**63, -2**63 - 1, x + 1]))))
        elif isinstance(x, float):
            out.append(("swap_type", p, set_path(v, p, "1.5")))
        elif isinstance(x, str):
            out.append(("swap_type", p, set_path(v, p, 17)))
            out.append(("str_edit", p, set_path(v, p, rng.choice([x + "x", x[:-1], x.upper(), x.lower(), "", x + "é"]))))
        elif x is None:
            out.append(("swap_type", p, set_path(v, p, 0)))
    return out[:limit]


def string_mutants(v, rng, limit=10):
    """Boundary-oriented edits of string leaves: lengths L-3..L+5 built with 1-, 2-, 3- and 4-byte
    characters, case flips, prefix/suffix edits."""
    out = []
    ps = [(p, x) for p, x in paths(v) if isinstance(x, str)]
    rng.shuffle(ps)
    pads = ["a", "é", "中", "😀"]
    for p, x in ps[:3]:
        L = len(x)
        for d in (1, 2, 3, 5):
            pad = rng.choice(pads)
            out.append(("str_longer", p, set_path(v, p, x + pad * d)))
        for d in (1, 2, 3):
            if L - d >= 0:
                out.append(("str_shorter", p, set_path(v, p, x[:L - d])))
        if x:
            out.append(("str_case", p, set_path(v, p, x.swapcase())))
            out.append(("str_multibyte_same_len", p, set_path(v, p, x[:-1] + rng.choice(pads[1:]))))
            out.append(("str_prefix", p, set_path(v, p, x[:max(1, L // 2)])))
    rng.shuffle(out)
    return out[:limit]

"""Emit the stage-2 driver (probe dispatch) and trait-bound assertion lines for
one vgen result. Everything is derived from typify's public introspection API
(names, idents, builder paths) and from syn facts about the rendered code."""
import re


def norm(s):
    """Token-string normal form: no whitespace."""
    return re.sub(r"\s+", "", s or "")


def type_facts(res):
    """name -> facts item for crate-level struct/enum definitions."""
    out = {}
    for it in res.get("facts") or []:
        if it["kind"] in ("struct", "enum") and it["mod"] == "":
            out.setdefault(it["name"], it)
    return out


def impls_of(res):
    """self type name -> set of normalised trait strings implemented in the output."""
    out = {}
    for it in res.get("facts") or []:
        if it["kind"] == "impl" and it["mod"] == "" and it.get("trait"):
            out.setdefault(norm(it["self_ty"]), set()).add(norm(it["trait"]))
    return out


def builder_names(res):
    return {it["name"] for it in res.get("facts") or []
            if it["kind"] == "struct" and it["mod"] == "builder"}


TR_FROMSTR = ("::std::str::FromStr",)
TR_DISPLAY = ("::std::fmt::Display",)
TR_DEFAULT = ("::std::default::Default", "Default")
TR_TF_STR = ("::std::convert::TryFrom<&str>",)
TR_TF_STRING = ("::std::convert::TryFrom<::std::string::String>", "::std::convert::TryFrom<String>")
TR_TF_REFSTRING = ("::std::convert::TryFrom<&::std::string::String>", "::std::convert::TryFrom<&String>")


def has(traits, names):
    return any(n in traits for n in names)


def named_types(res):
    """Named (generated) types from the introspection dump that have a definition."""
    tf = type_facts(res)
    out = []
    for t in res.get("types") or []:
        if t["kind"] in ("struct", "enum", "newtype"):
            # name() is the bare type name for named types
            if norm(t["name"]) in tf:
                out.append(t)
    return out


def rust_str(s):
    return '"' + s.replace("\\", "\\\\").replace('"', '\\"') + '"'


def emit(res, want_builder=True, want_str=True, want_default=True):
    """Returns (driver_code, info) where info[type name] = set of ops available."""
    types = {t["id"]: t for t in res.get("types") or []}
    tf = type_facts(res)
    impls = impls_of(res)
    builders = builder_names(res)
    arms = []
    helpers = []
    info = {}
    for t in named_types(res):
        name = norm(t["name"])
        ident = t["ident"]   # as reported by Type::ident() (may carry the type_mod prefix)
        ops = set()
        tr = impls.get(name, set())
        key = rust_str(name)
        # emptiness: an enum without variants cannot be deserialised; serde derive still works
        arms.append('(%s, "de") => ::vrt::op_de::<%s>(input),' % (key, ident))
        ops.add("de")
        if want_default and has(tr, TR_DEFAULT):
            arms.append('(%s, "default") => ::vrt::op_default::<%s>(),' % (key, ident))
            ops.add("default")
        if want_str and (has(tr, TR_FROMSTR) or has(tr, TR_DISPLAY) or has(tr, TR_TF_STR)):
            body = ['let s = input.as_str().unwrap_or("");',
                    'let mut o = ::serde_json::Map::new();',
                    'let de = ::serde_json::from_value::<%s>(::serde_json::Value::String(s.to_string()));' % ident]
            if has(tr, TR_DISPLAY):
                body.append('if let Ok(x) = &de { o.insert("disp_de".into(), ::serde_json::Value::String(x.to_string())); }')
            body.append('o.insert("de".into(), ::vrt::res(de));')
            if has(tr, TR_FROMSTR):
                body.append('let p = s.parse::<%s>();' % ident)
                if has(tr, TR_DISPLAY):
                    body.append('if let Ok(x) = &p { o.insert("disp_parse".into(), ::serde_json::Value::String(x.to_string())); }')
                body.append('o.insert("parse".into(), ::vrt::res(p));')
            if has(tr, TR_TF_STR):
                body.append('o.insert("tf_str".into(), ::vrt::res(<%s as ::std::convert::TryFrom<&str>>::try_from(s)));' % ident)
            if has(tr, TR_TF_STRING):
                body.append('o.insert("tf_string".into(), ::vrt::res(<%s as ::std::convert::TryFrom<::std::string::String>>::try_from(s.to_string())));' % ident)
            if has(tr, TR_TF_REFSTRING):
                body.append('o.insert("tf_refstring".into(), ::vrt::res(<%s as ::std::convert::TryFrom<&::std::string::String>>::try_from(&s.to_string())));' % ident)
            body.append('::serde_json::Value::Object(o)')
            arms.append('(%s, "str") => { %s }' % (key, " ".join(body)))
            ops.add("str")
            if has(tr, TR_DISPLAY):
                ops.add("display")
            for nm, trs in (("fromstr", TR_FROMSTR), ("tf_str", TR_TF_STR), ("tf_string", TR_TF_STRING),
                            ("tf_refstring", TR_TF_REFSTRING)):
                if has(tr, trs):
                    ops.add(nm)
        if want_builder and t["kind"] == "struct" and t.get("builder") and name in builders:
            bpath = t["builder"]
            fn = "build_%d" % t["id"]
            lines = ["fn %s(input: &::serde_json::Value) -> ::serde_json::Value {" % fn,
                     "    let empty = ::serde_json::Map::new();",
                     "    let set = input.get(\"set\").and_then(|v| v.as_object()).unwrap_or(&empty);",
                     "    let mut input_err: Vec<::serde_json::Value> = Vec::new();",
                     "    let mut b = %s::builder();" % ident]
            for p in t.get("props") or []:
                pt = types.get(p["type_id"])
                if pt is None:
                    continue
                lines.append(
                    "    if let Some(v) = set.get(%s) { match ::serde_json::from_value::<%s>(v.clone()) { "
                    "Ok(x) => { b = b.%s(x); } Err(e) => input_err.push(::serde_json::json!([%s, e.to_string()])) } }"
                    % (rust_str(p["name"]), pt["ident"], p["name"], rust_str(p["name"])))
            lines += [
                "    let r: ::std::result::Result<%s, _> = ::std::convert::TryInto::try_into(b);" % ident,
                "    let mut o = ::serde_json::Map::new();",
                "    o.insert(\"input_err\".into(), ::serde_json::Value::Array(input_err));",
                "    o.insert(\"r\".into(), ::vrt::res_d(r));",
                "    ::serde_json::Value::Object(o)",
                "}"]
            helpers.append("\n".join(lines))
            arms.append('(%s, "build") => %s(input),' % (key, fn))
            ops.add("build")
            # struct -> builder -> struct
            fn2 = "b2s_%d" % t["id"]
            helpers.append("\n".join([
                "fn %s(input: &::serde_json::Value) -> ::serde_json::Value {" % fn2,
                "    let text = input.as_str().unwrap_or(\"\");",
                "    let x: %s = match ::serde_json::from_str(text) { Ok(x) => x, Err(e) => return ::serde_json::json!({\"de_ok\": false, \"err\": e.to_string()}) };" % ident,
                "    let b: %s = x.clone().into();" % bpath,
                "    let y: ::std::result::Result<%s, _> = ::std::convert::TryInto::try_into(b);" % ident,
                "    ::serde_json::json!({\"de_ok\": true, \"x\": ::vrt::ser(&x), \"y\": ::vrt::res_d(y)})",
                "}"]))
            arms.append('(%s, "b2s") => %s(input),' % (key, fn2))
            ops.add("b2s")
            # bad setter values: one op per eligible property
            for p in t.get("props") or []:
                pt = types.get(p["type_id"])
                if pt is None:
                    continue
                ptr = impls.get(norm(pt["name"]), set())
                kind = None
                if pt["kind"] in ("struct", "enum", "newtype") and has(ptr, TR_TF_STRING):
                    kind = "str"
                elif pt["kind"] == "builtin" and pt.get("builtin") in (
                        "i8", "u8", "i16", "u16", "i32", "u32", "i64", "u64"):
                    kind = "int"
                if kind is None:
                    continue
                fn3 = "bad_%d_%s" % (t["id"], re.sub(r"[^A-Za-z0-9_]", "_", p["name"]))
                conv = ("input.get(\"value\").and_then(|v| v.as_str()).unwrap_or(\"\").to_string()"
                        if kind == "str" else
                        "input.get(\"value\").and_then(|v| v.as_str()).and_then(|s| s.parse::<i128>().ok()).unwrap_or(0)")
                lines = ["fn %s(input: &::serde_json::Value) -> ::serde_json::Value {" % fn3,
                         "    let empty = ::serde_json::Map::new();",
                         "    let set = input.get(\"set\").and_then(|v| v.as_object()).unwrap_or(&empty);",
                         "    let mut b = %s::builder();" % ident]
                for q in t.get("props") or []:
                    qt = types.get(q["type_id"])
                    if qt is None or q["name"] == p["name"]:
                        continue
                    lines.append(
                        "    if let Some(v) = set.get(%s) { if let Ok(x) = ::serde_json::from_value::<%s>(v.clone()) { b = b.%s(x); } }"
                        % (rust_str(q["name"]), qt["ident"], q["name"]))
                lines += ["    let bad = %s;" % conv,
                          "    b = b.%s(bad);" % p["name"],
                          "    let r: ::std::result::Result<%s, _> = ::std::convert::TryInto::try_into(b);" % ident,
                          "    ::vrt::res_d(r)",
                          "}"]
                helpers.append("\n".join(lines))
                arms.append('(%s, %s) => %s(input),' % (key, rust_str("bad_%s:%s" % (kind, p["name"])), fn3))
                ops.add("bad_%s:%s" % (kind, p["name"]))
        info[name] = ops
    code = ["#![allow(warnings)]", "use super::gen::*;", ""]
    code += helpers
    code += ["", "pub fn dispatch(ty: &str, op: &str, input: &::serde_json::Value) -> ::serde_json::Value {",
             "    match (ty, op) {"]
    code += ["        " + a for a in arms]
    code += ["        _ => ::vrt::unknown_op(),", "    }", "}"]
    return "\n".join(code) + "\n", info


def bound_line(k, ty_ident, bound):
    return "const _: fn() = || { fn a<T: %s>() {} a::<%s>(); };" % (bound, ty_ident)

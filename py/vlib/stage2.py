"""Stage 2: compile typify's output (verbatim) next to generated drivers, with
rustc's JSON diagnostics as the compile-time monitor, then run probe shards."""
import json
import os
import re
import shutil
from concurrent.futures import ThreadPoolExecutor

from . import util

TARGET = os.path.join(util.WORK, "target-s2")
VRT = os.path.join(util.VERIF, "rt", "vrt")

CASE_FILE_RE = re.compile(r"(?:^|/)(c_[A-Za-z0-9_]+)/(gen|driver|bounds|origin)\.rs$")

SHARD_TOML = """[package]
name = "%(pkg)s"
version = "0.0.0"
edition = "2021"
publish = false

[dependencies]
vrt = { path = "%(vrt)s" }
serde = { version = "1.0.219", features = ["derive"] }
serde_json = "1.0.140"
chrono = { version = "0.4.40", features = ["serde"] }
uuid = { version = "1.16.0", features = ["serde"] }
regress = "0.10.3"
%(extra_deps)s
"""

WS_TOML = """[workspace]
members = [%(members)s]
resolver = "2"

[profile.dev]
debug = 0
opt-level = 0
"""


class Stage2Error(Exception):
    pass


class Stage2:
    def __init__(self, prop, name="s2", nshards=None, extra_deps=""):
        self.prop = prop
        self.name = name
        self.root = os.path.join(util.WORK, prop, name)
        self.cases = {}       # cid -> dict(files)
        self.order = []
        self.nshards = nshards
        self.extra_deps = extra_deps
        self.pkg_prefix = "s2_%s_%s_" % (prop.lower(), re.sub(r"[^a-z0-9]", "", name.lower()))
        self.shard_of = {}
        self.diags = {}       # cid -> list of diag dicts
        self.removed = {}     # cid -> reason ('gen'|'driver'|'origin')
        self.bounds_failed = {}  # cid -> list of (marker, diag)
        self.rounds = 0
        self.build_s = 0.0

    def add_case(self, cid, gen_code, driver_code, bounds=None, type_mod=None, origin_code=None):
        """bounds: list of (marker, rust_line) each a self-contained item on one line."""
        assert re.match(r"^[A-Za-z0-9_]+$", cid), cid
        self.cases[cid] = {"gen": gen_code, "driver": driver_code, "bounds": bounds or [],
                           "type_mod": type_mod, "origin": origin_code}
        self.order.append(cid)

    # -- writing ---------------------------------------------------------
    def _mod(self, cid):
        return "c_" + cid

    def _write(self):
        if os.path.exists(self.root):
            shutil.rmtree(self.root)
        os.makedirs(self.root)
        n = self.nshards or min(util.NCPU, max(1, len(self.order) // 6))
        self.nshards = n
        self.shards = [[] for _ in range(n)]
        # balance by code size
        sizes = [0] * n
        for cid in sorted(self.order, key=lambda c: -len(self.cases[c]["gen"])):
            i = sizes.index(min(sizes))
            self.shards[i].append(cid)
            sizes[i] += len(self.cases[cid]["gen"]) + 2000
            self.shard_of[cid] = i
        members = []
        for i in range(n):
            pkg = self.pkg_prefix + str(i)
            members.append('"%s"' % pkg)
            d = os.path.join(self.root, pkg, "src")
            os.makedirs(d)
            with open(os.path.join(self.root, pkg, "Cargo.toml"), "w") as f:
                f.write(SHARD_TOML % {"pkg": pkg, "vrt": VRT, "extra_deps": self.extra_deps})
            for cid in self.shards[i]:
                c = self.cases[cid]
                cd = os.path.join(d, self._mod(cid))
                os.makedirs(cd)
                gen = c["gen"]
                if c["type_mod"]:
                    gen = "pub mod %s {\n%s\n}\n" % (c["type_mod"], gen)
                with open(os.path.join(cd, "gen.rs"), "w") as f:
                    f.write(gen)
                with open(os.path.join(cd, "driver.rs"), "w") as f:
                    f.write(c["driver"])
                if c["origin"] is not None:
                    with open(os.path.join(cd, "origin.rs"), "w") as f:
                        f.write(c["origin"])
                self._write_bounds(cid, set())
            self._write_main(i)
        with open(os.path.join(self.root, "Cargo.toml"), "w") as f:
            f.write(WS_TOML % {"members": ", ".join(members)})
        shutil.copy(os.path.join(util.REPO, "Cargo.lock"), os.path.join(self.root, "Cargo.lock"))
        shutil.copy(os.path.join(util.REPO, "rust-toolchain.toml"),
                    os.path.join(self.root, "rust-toolchain.toml"))

    def _bounds_path(self, cid):
        i = self.shard_of[cid]
        return os.path.join(self.root, self.pkg_prefix + str(i), "src", self._mod(cid), "bounds.rs")

    def _write_bounds(self, cid, dead_lines):
        c = self.cases[cid]
        lines = ["use super::gen::*;"]
        for k, (marker, line) in enumerate(c["bounds"]):
            assert "\n" not in line
            lines.append("// removed" if (k + 2) in dead_lines else line)
        with open(self._bounds_path(cid), "w") as f:
            f.write("\n".join(lines) + "\n")

    def _write_main(self, i):
        pkg = self.pkg_prefix + str(i)
        live = [c for c in self.shards[i] if c not in self.removed]
        out = ["#![allow(warnings)]", "#![recursion_limit = \"512\"]"]
        for cid in live:
            c = self.cases[cid]
            m = self._mod(cid)
            out.append("mod %s { pub mod gen; pub mod driver; pub mod bounds; %s}" %
                       (m, "pub mod origin; " if c["origin"] is not None else ""))
        out.append("fn main() {")
        out.append("    let table: Vec<(&str, vrt::Dispatch)> = vec![")
        for cid in live:
            out.append('        ("%s", %s::driver::dispatch as vrt::Dispatch),' % (cid, self._mod(cid)))
        out.append("    ];")
        out.append("    vrt::run(&table);")
        out.append("}")
        with open(os.path.join(self.root, pkg, "src", "main.rs"), "w") as f:
            f.write("\n".join(out) + "\n")

    # -- building --------------------------------------------------------
    def build(self, max_rounds=10, timeout=3600):
        import time
        t0 = time.time()
        self._write()
        env = util.cargo_env({"CARGO_TARGET_DIR": TARGET})
        dead = {}  # cid -> set(line numbers) in bounds.rs
        for rnd in range(1, max_rounds + 1):
            self.rounds = rnd
            rc, so, se, dt = util.run(
                ["cargo", "build", "--offline", "-q", "--message-format=json", "--keep-going"],
                cwd=self.root, env=env, timeout=timeout)
            if rc == "timeout":
                raise Stage2Error("stage-2 build watchdog fired")
            errs = []
            for line in so.splitlines():
                if not line.startswith("{"):
                    continue
                try:
                    m = json.loads(line)
                except Exception:
                    continue
                if m.get("reason") != "compiler-message":
                    continue
                msg = m["message"]
                if msg.get("level") not in ("error", "error: internal compiler error"):
                    continue
                errs.append(msg)
            if rc == 0:
                self.build_s = time.time() - t0
                return True
            if not errs:
                raise Stage2Error("stage-2 build failed without diagnostics:\n" + se[-3000:])
            touched = set()
            progress = False
            unattributed = []
            for msg in errs:
                spans = msg.get("spans") or []
                prim = [s for s in spans if s.get("is_primary")] or spans
                where = None
                for s in prim:
                    # follow macro expansion to the outermost call site in our files
                    cur = s
                    while cur is not None:
                        mm = CASE_FILE_RE.search(cur.get("file_name", ""))
                        if mm:
                            where = (mm.group(1)[2:], mm.group(2), cur.get("line_start"))
                            break
                        exp = cur.get("expansion")
                        cur = exp.get("span") if exp else None
                    if where:
                        break
                code = (msg.get("code") or {}).get("code")
                d = {"code": code, "message": msg.get("message"),
                     "rendered": (msg.get("rendered") or "")[:1500]}
                if where is None:
                    if msg.get("message", "").startswith("aborting due to") or \
                            msg.get("message", "").startswith("could not compile"):
                        continue
                    unattributed.append(d)
                    continue
                cid, which, line = where
                d["file"] = which
                d["line"] = line
                if which == "bounds":
                    k = line - 2
                    bl = self.cases[cid]["bounds"]
                    marker = bl[k][0] if 0 <= k < len(bl) else None
                    d["marker"] = marker
                    self.bounds_failed.setdefault(cid, []).append((marker, d))
                    dead.setdefault(cid, set()).add(line)
                    touched.add(cid)
                    progress = True
                else:
                    self.diags.setdefault(cid, []).append(d)
                    if cid not in self.removed:
                        self.removed[cid] = which
                        progress = True
            if unattributed and not progress:
                raise Stage2Error("stage-2 build errors not attributable to a case:\n" +
                                  json.dumps(unattributed[:5], indent=1)[:4000])
            for cid in touched:
                if cid not in self.removed:
                    self._write_bounds(cid, dead[cid])
            for i in range(self.nshards):
                self._write_main(i)
        raise Stage2Error("stage-2 build did not reach a fixpoint in %d rounds" % max_rounds)

    # -- running ---------------------------------------------------------
    def run(self, probes, timeout=900):
        """probes: list of dict(pid, case, ty, op, input). Returns
        (outs: pid -> out, aborted: pid -> info, timed_out: [pid])."""
        wd = os.path.join(self.root, "run")
        os.makedirs(wd, exist_ok=True)
        per = [[] for _ in range(self.nshards)]
        skipped = []
        for p in probes:
            cid = p["case"]
            if cid in self.removed or cid not in self.shard_of:
                skipped.append(p["pid"])
                continue
            per[self.shard_of[cid]].append(p)
        outs, aborted, timed = {}, {}, []

        def one(i):
            if not per[i]:
                return [], {}, []
            binp = os.path.join(TARGET, "debug", self.pkg_prefix + str(i))
            return util.run_resumable(lambda inp, outp: [binp, inp, outp], per[i],
                                      lambda p: p["pid"], wd, "sh%d" % i, timeout)

        with ThreadPoolExecutor(max_workers=self.nshards) as ex:
            for o, a, t in ex.map(one, range(self.nshards)):
                for r in o:
                    outs[r["pid"]] = r["out"]
                aborted.update(a)
                timed.extend(t)
        return outs, aborted, timed, skipped

    def cleanup(self):
        """Remove build products of this stage-2 workspace (keeps shared deps)."""
        for i in range(self.nshards or 0):
            pkg = self.pkg_prefix + str(i)
            for sub in ("debug", ):
                base = os.path.join(TARGET, sub)
                for d in ("incremental", "deps", ".fingerprint", ""):
                    p = os.path.join(base, d)
                    if not os.path.isdir(p):
                        continue
                    for f in os.listdir(p):
                        if f.startswith(pkg + "-") or f.startswith(pkg.replace("-", "_") + "-") or f == pkg or f == pkg + ".d":
                            fp = os.path.join(p, f)
                            try:
                                if os.path.isdir(fp):
                                    shutil.rmtree(fp)
                                else:
                                    os.remove(fp)
                            except OSError:
                                pass

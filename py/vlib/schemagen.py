"""Seeded grammar-based generator of JSON Schema documents (draft-07 vocabulary
as schemars 0.8 parses it). Produces documents of the form
{"definitions": {...}} whose definitions are the schemas under test.

Profile "F" = the faithful fragment named by C02; profile "G" adds constructs
outside it (used by C01 only)."""

PROP_NAMES = ["alpha", "beta", "gamma", "delta", "count", "name", "value", "id",
              "camelCase", "with-dash", "type", "Upper", "ref", "two words", "x9", "kind_of",
              "π", "snake_case_name", "fn", "a"]
ENUM_VALUES = ["red", "green", "blue", "Dark Red", "light-blue", "UPPER", "camelCase", "snake_case",
               "a", "b", "c", "x-ray", "1st", "match", "type", "Ω", "foo.bar", "N/A", "{id}", "a}b", "pad", "pad ", " pad"]
DEF_NAMES = ["Thing", "Widget", "Gadget", "Node", "Tree", "Item", "Config", "Shape", "Event", "Record",
             "pet-store", "http_request", "lowercase", "Mixed_Case-name", "V2Thing", "Kind", "point_x_y", "a_b_c"]
TAG_NAMES = ["type", "kind", "tag", "t", "variant"]
CONTENT_NAMES = ["content", "data", "c", "value"]

# (pattern, matching strings, non-matching strings); python re.search == ECMAScript on these
PATTERNS = [
    ("^[a-z]+$", ["abc", "z"], ["", "Abc", "a1", "a b"]),
    ("^[A-Z][a-z0-9]*$", ["A", "Ab9"], ["", "aB", "9A", "A-"]),
    ("^[0-9]{3}-[0-9]{4}$", ["555-1234"], ["5551234", "55-1234", "555-12345"]),
    ("[0-9]", ["a1", "9"], ["", "abc"]),
    ("^(foo|bar)$", ["foo", "bar"], ["foobar", "", "fo"]),
    ("^x.*y$", ["xy", "x123y"], ["x", "y", "yx"]),
    ("^[a-f0-9]{2,4}$", ["ab", "0f3c"], ["a", "abcde", "gg"]),
]

INT_FORMATS = ["int8", "uint8", "int16", "uint16", "int32", "uint32", "int64", "uint64", "int", "uint"]
STR_FORMATS = ["uuid", "date", "date-time", "ip", "ipv4", "ipv6"]


class SchemaGen:
    def __init__(self, rng, profile="F", max_depth=3, features=None, avoid_known=True):
        # avoid_known: stay out of the regions where typify has recorded (known) defects:
        #  B derived-name collisions between variants, C single-variant tagged oneOf,
        #  D mixed open/closed variants (see DESIGN.md, known_findings.json)
        self.avoid = avoid_known
        self.r = rng
        self.profile = profile
        self.max_depth = max_depth
        self.features = features  # optional whitelist of constructor names
        self.used = []            # constructors used for the current document
        self.defs = {}
        self.def_pool = []        # names of definitions (for $ref)
        self.title_n = 0

    # -- helpers ----------------------------------------------------------
    def pick(self, xs):
        return xs[self.r.randrange(len(xs))]

    def chance(self, p):
        return self.r.random() < p

    def sample(self, xs, k):
        xs = list(xs)
        self.r.shuffle(xs)
        return xs[:k]

    def use(self, name):
        self.used.append(name)

    def allowed(self, name):
        return self.features is None or name in self.features

    # -- scalars ----------------------------------------------------------
    def s_bool(self):
        self.use("bool")
        return {"type": "boolean"}

    def s_null(self):
        self.use("null")
        return {"type": "null"}

    def s_integer(self):
        r = self.r
        s = {"type": "integer"}
        k = r.random()
        if k < 0.45:
            s["format"] = self.pick(INT_FORMATS)
            self.use("int_format")
            if self.chance(0.15):
                from .oracle import INT_FORMATS as RANGES
                lo, hi = RANGES[s["format"]]
                if self.chance(0.5):
                    s["minimum"] = float(self.pick([lo, 0, 1])) if abs(lo) < 2**53 else float(lo)
                else:
                    s["maximum"] = float(self.pick([hi, 100])) if abs(hi) < 2**53 else float(hi)
                self.use("int_format_bounds")
        elif k < 0.55:
            s["format"] = self.pick(["foo", "integer", "bigint"])
            self.use("int_unknown_format")
        elif k < 0.8:
            self.use("int_bounds")
            bounds = [0, 1, -1, 255, 256, -128, 127, 65535, 2**31 - 1, -2**31, 2**32 - 1, 10, 100, 1000]
            kind = r.randrange(4)
            if kind == 0:
                s["minimum"] = float(self.pick(bounds))
            elif kind == 1:
                s["maximum"] = float(self.pick(bounds))
            elif kind == 2:
                a, b = sorted([self.pick(bounds), self.pick(bounds)])
                s["minimum"], s["maximum"] = float(a), float(b)
            else:
                s["exclusiveMinimum"] = float(self.pick(bounds))
        else:
            self.use("int_plain")
        return s

    def s_number(self):
        self.use("number")
        s = {"type": "number"}
        k = self.r.random()
        if k < 0.3:
            s["format"] = "float"
        elif k < 0.6:
            s["format"] = "double"
        return s

    def s_string(self):
        r = self.r
        k = r.random()
        if k < 0.4:
            self.use("string_plain")
            return {"type": "string"}
        if k < 0.7:
            self.use("string_constrained")
            s = {"type": "string"}
            c = r.randrange(5)
            if c == 4:
                s["minLength"] = s["maxLength"] = r.randrange(1, 5)   # fixed length (counted in scalar values)
                return s
            if self.chance(0.12):
                # bounds at the end of their range: a constraint that constrains nothing, or admits only ""
                s.update(self.pick([{"minLength": 0}, {"maxLength": 0}, {"minLength": 0, "maxLength": 3}, {"pattern": ""},
                                    {"minLength": 0, "pattern": "^[a-z]*$"}]))
                return s
            if c in (0, 3):
                s["minLength"] = r.randrange(0, 4)
            if c in (1, 3):
                s["maxLength"] = s.get("minLength", 0) + r.randrange(0, 5)
            if c == 2 or (c == 3 and self.chance(0.3)):
                s["pattern"] = self.pick(PATTERNS)[0]
                if "maxLength" in s:
                    s["maxLength"] += 8
            return s
        if k < 0.92:
            self.use("string_format")
            return {"type": "string", "format": self.pick(STR_FORMATS)}
        self.use("string_unknown_format")
        return {"type": "string", "format": self.pick(["email", "hostname", "custom", "partial-date-time", "time", "duration",
                                                       "uri", "regex", "binary", "Date", "uuid4"])}

    def s_string_enum(self, no_null=True):
        # the nullable form only where a null alternative cannot overlap a sibling (see s_scalar)
        self.use("string_enum")
        n = self.r.randrange(1, 6)
        s = {"type": "string", "enum": self.sample(ENUM_VALUES, n)}
        k = self.r.random()
        if k < 0.18:
            # enumerated values next to string constraints: the type holds the values that satisfy both
            self.use("string_enum_constrained")
            s["enum"] = self.sample(ENUM_VALUES + ["ΩΩ", "日本語", "é"], n + 1)
            c = self.r.randrange(3)
            if c == 0:
                s["maxLength"] = self.r.randrange(1, 5)
            elif c == 1:
                s["minLength"] = self.r.randrange(1, 4)
            else:
                s["pattern"] = self.pick(["^[a-z]", "[A-Za-z]$", "^.{1,3}$"])
        elif k < 0.26 and not no_null:
            self.use("string_enum_nullable")
            s = {"type": ["string", "null"], "enum": s["enum"] + [None]}
        return s

    def s_typed_enum(self, no_null=True):
        self.use("typed_enum")
        if not no_null and self.chance(0.25):
            # the nullable form: a two-element type list with null among the enumerated values
            self.use("typed_enum_nullable")
            if self.chance(0.6):
                return {"type": ["integer", "null"], "enum": self.sample([1, 2, 3, 5, 8, -1, 0], self.r.randrange(1, 4)) + [None]}
            return {"type": ["number", "null"], "enum": self.sample([0.5, 1.5, 2.25, -4.5], self.r.randrange(1, 3)) + [None]}
        k = self.r.randrange(3)
        if k == 0:
            return {"type": "integer", "enum": self.sample([1, 2, 3, 5, 8, -1, 0, 100], self.r.randrange(1, 5))}
        if k == 1:
            return {"type": "number", "enum": self.sample([0.5, 1.5, 2.25, -4.0, 8.0], self.r.randrange(1, 4))}
        return {"type": "integer", "format": "uint8", "enum": self.sample([1, 2, 3, 200, 255], self.r.randrange(1, 4))}

    def s_untyped_enum(self, no_null=False):
        """enum without a `type`: the JSON type is implied by the values (optionally with null)."""
        self.use("untyped_enum")
        k = self.r.randrange(3)
        if k == 0:
            vals = self.sample(ENUM_VALUES, self.r.randrange(1, 5))
        elif k == 1:
            vals = self.sample([1, 2, 3, 5, 8, -1, 0, 100], self.r.randrange(1, 5))
        else:
            vals = self.sample([0.5, 1.5, 2.25, -4.5, 8.75], self.r.randrange(1, 4))
        if not no_null and self.chance(0.3):
            vals = vals + [None]
        return {"enum": vals}

    def s_not_enum(self):
        self.use("not_enum")
        vals = self.sample(ENUM_VALUES, self.r.randrange(1, 4))
        if self.chance(0.5):
            return {"not": {"enum": vals}}
        return {"not": {"type": "string", "enum": vals}}

    def s_scalar(self, no_null=False):
        opts = [("bool", self.s_bool, 1), ("integer", self.s_integer, 3), ("number", self.s_number, 1),
                ("string", self.s_string, 4), ("string_enum", lambda: self.s_string_enum(no_null), 2),
                ("typed_enum", lambda: self.s_typed_enum(no_null), 1),
                ("untyped_enum", lambda: self.s_untyped_enum(no_null), 0.6),
                ("not_enum", self.s_not_enum, 0.5 if self.profile != "F" else 0),  # F excludes deny lists (C02)
                ("null", self.s_null, 0 if no_null else 0.3)]
        opts = [o for o in opts if self.allowed(o[0]) and o[2] > 0]
        return self.weighted(opts)()

    def weighted(self, opts):
        tot = sum(o[2] for o in opts)
        x = self.r.random() * tot
        for o in opts:
            x -= o[2]
            if x <= 0:
                return o[1]
        return opts[-1][1]

    # -- compound ----------------------------------------------------------
    def s_ref(self):
        self.use("ref")
        return {"$ref": "#/definitions/" + self.pick(self.def_pool)}

    def s_array(self, d):
        r = self.r
        k = r.random()
        if k < 0.05:
            self.use("array_of_any")
            return self.pick([{"type": "array"}, {"type": "array", "items": True}, {"type": "array", "items": {}}])
        if k < 0.5:
            self.use("vec")
            s = {"type": "array", "items": self.schema(d + 1)}
            if self.chance(0.2):
                s["minItems"] = r.randrange(0, 3)
            return s
        if k < 0.65:
            self.use("set")
            st = {"type": "array", "items": self.pick([self.s_string, self.s_integer, self.s_string_enum])(),
                  "uniqueItems": True}
            if self.chance(0.25):
                st["minItems"] = r.randrange(1, 3)
            return st
        if k < 0.87:
            self.use("tuple")
            n = r.randrange(1, 4)
            return {"type": "array", "items": [self.schema(d + 1) for _ in range(n)],
                    "minItems": n, "maxItems": n}
        self.use("fixed_array")
        n = r.randrange(1, 4)
        return {"type": "array", "items": self.schema(d + 1), "minItems": n, "maxItems": n}

    def props(self, d, n=None, names=None):
        r = self.r
        n = r.randrange(0, 5) if n is None else n
        names = names if names is not None else self.sample(PROP_NAMES, n)
        props, required = {}, []
        for nm in names:
            ps = self.schema(d + 1)
            if self.chance(0.55):
                required.append(nm)
            props[nm] = ps
        return props, required

    def s_object(self, d):
        r = self.r
        k = r.random()
        if k < 0.18 and self.allowed("map"):
            self.use("map")
            if self.chance(0.2):
                self.use("pattern_map")
                return {"type": "object", "patternProperties": {self.pick(["^[a-z]+$", "^x-"]): self.schema(d + 1)},
                        "additionalProperties": False}
            if self.chance(0.25):
                # keys constrained through propertyNames (a generated key newtype), values typed or free-form
                self.use("keyed_map")
                m = {"type": "object", "propertyNames": self.pick([{"pattern": self.pick(PATTERNS)[0]}, {"maxLength": 4},
                                                                    {"minLength": 2, "pattern": "^[a-z]+$"}])}
                k = self.r.randrange(3)
                if k == 0:
                    m["additionalProperties"] = self.schema(d + 1)
                elif k == 1:
                    m["additionalProperties"] = True
                return m
            return {"type": "object", "additionalProperties": self.schema(d + 1)}
        self.use("struct")
        props, required = self.props(d)
        s = {"type": "object", "properties": props}
        if required:
            s["required"] = required
        ap = r.random()
        if ap < 0.3:
            s["additionalProperties"] = False
            self.use("closed")
        elif ap < 0.4:
            s["additionalProperties"] = True
        elif ap < 0.5 and props:
            s["additionalProperties"] = self.pick([self.s_string, self.s_integer, self.s_bool])()
            self.use("extra_map")
        if self.chance(0.08) and not s.get("additionalProperties") is False:
            # a name that is required but has no schema of its own (a dictionary with a mandated key)
            self.use("required_without_schema")
            s["required"] = list(s.get("required", [])) + ["mandated"]
        if self.avoid and len(props) == 1 and required and s.get("additionalProperties") in (None, True):
            # an OPEN object with exactly one (required) member is read as an externally tagged variant when it
            # is a oneOf/anyOf branch (KF-C02-2): such objects are generated closed
            s["additionalProperties"] = False
        if s.get("additionalProperties") is False and "mandated" in s.get("required", []):
            s["required"] = [x for x in s["required"] if x != "mandated"]   # (closed + schema-less required name = unsatisfiable)
        return s

    def s_nullable(self, d):
        k = self.r.randrange(3)
        inner = self.schema(d + 1, no_null=True)
        if k == 0 and isinstance(inner.get("type"), str) and "enum" not in inner:
            self.use("nullable_typelist")
            s = dict(inner)
            s["type"] = [inner["type"], "null"]
            return s
        if k == 1:
            self.use("nullable_anyof")
            return {"anyOf": [inner, {"type": "null"}]}
        self.use("nullable_oneof")
        return {"oneOf": [inner, {"type": "null"}]}

    def variant_names(self, n):
        return self.sample(["Alpha", "Beta", "Gamma", "delta", "two-words", "snake_v", "X", "Y2"], n)

    def s_oneof_external(self, d):
        self.use("oneof_external")
        n = self.r.randrange(1, 4)
        names = self.variant_names(n + 2)
        branches = []
        if self.chance(0.6):
            k = self.r.randrange(1, 3)
            branches.append({"type": "string", "enum": names[:k]})
            names = names[k:]
        closed = self.chance(0.5)
        # (avoid_known) a {type:null} payload is the recorded finding KF-C03-1
        payloads = [self.schema(d + 1, no_null=self.avoid) for _ in names[:n]]
        if any(isinstance(p, dict) and ("allOf" in p or isinstance(p.get("additionalProperties"), dict))
               for p in payloads):
            closed = False  # merged allOf payloads / typed extra maps are open structs
        for nm, payload in zip(names[:n], payloads):
            if self.avoid:
                payload = self.uniform_closed(payload, closed)
            branches.append({"type": "object", "required": [nm], "properties": {nm: payload},
                             "additionalProperties": False})
        return {"oneOf": branches}

    def uniform_closed(self, s, closed):
        """Give an inline struct payload the enum-wide open/closed setting."""
        if isinstance(s, dict) and s.get("type") == "object" and "properties" in s and \
                not isinstance(s.get("additionalProperties"), dict):
            s = dict(s)
            if closed:
                s["additionalProperties"] = False
                if "mandated" in s.get("required", []):
                    s["required"] = [x for x in s["required"] if x != "mandated"]
            else:
                s.pop("additionalProperties", None)
        return s

    def simple(self):
        """A schema that needs no generated (named) type."""
        k = self.r.randrange(5)
        if k == 0:
            return {"type": "boolean"}
        if k == 1:
            return {"type": "integer"}
        if k == 2:
            return {"type": "string"}
        if k == 3:
            return {"type": "array", "items": {"type": "string"}}
        if self.def_pool:
            return {"$ref": "#/definitions/" + self.pick(self.def_pool)}
        return {"type": "number"}

    def s_oneof_internal(self, d):
        self.use("oneof_internal")
        tag = self.pick(TAG_NAMES)
        n = self.r.randrange(2 if self.avoid else 1, 4)
        branches = []
        pool = [p for p in PROP_NAMES if p != tag]
        self.r.shuffle(pool)
        closed = self.chance(0.3)
        for nm in self.variant_names(n):
            k = self.r.randrange(0, 3)
            if self.avoid:
                mine, pool = pool[:k], pool[k:]   # property names disjoint across variants
            else:
                mine = self.sample(pool, k)
            props, required = self.props(d, names=mine)
            props[tag] = {"type": "string", "enum": [nm]}
            b = {"type": "object", "properties": props, "required": [tag] + required}
            if (closed if self.avoid else self.chance(0.3)):
                b["additionalProperties"] = False
            branches.append(b)
        if self.avoid:
            # exactly one non-tag member overall makes typify read this as ADJACENT tagging: keep such unions out of
            # the recorded regions (content struct must then be open, wrapper closedness is not represented)
            others = {k for b in branches for k in b["properties"] if k != tag}
            if len(others) == 1:
                for b in branches:
                    b.pop("additionalProperties", None)
                    for k in list(b["properties"]):
                        if k != tag:
                            b["properties"][k] = self.uniform_closed(b["properties"][k], False)
                            if b["properties"][k] == {"type": "null"}:
                                b["properties"][k] = {"type": "boolean"}   # KF-C03-1 (null content -> unit variant)
        return {"oneOf": branches}

    def s_oneof_adjacent(self, d):
        self.use("oneof_adjacent")
        tag = self.pick(TAG_NAMES)
        content = self.pick([c for c in CONTENT_NAMES if c != tag])
        n = self.r.randrange(2 if self.avoid else 1, 4)
        branches = []
        rich = self.r.randrange(n)  # the one variant whose content may need generated types
        for i, nm in enumerate(self.variant_names(n)):
            if i != rich and self.chance(0.4):
                branches.append({"type": "object", "properties": {tag: {"type": "string", "enum": [nm]}},
                                 "required": [tag]})
            else:
                if self.avoid:
                    # (a {type:null} content is the recorded finding KF-C03-1: it becomes a unit variant)
                    cs = self.uniform_closed(self.schema(d + 1, no_null=True), False) if i == rich else self.simple()
                else:
                    cs = self.schema(d + 1)
                branches.append({"type": "object",
                                 "properties": {tag: {"type": "string", "enum": [nm]}, content: cs},
                                 "required": [tag, content]})
        return {"oneOf": branches}

    def disjoint_branches(self, d):
        """Branches with pairwise different JSON types."""
        kinds = self.sample(["string", "integer", "boolean", "object", "array", "null"], self.r.randrange(2, 5))
        if "integer" in kinds and "number" in kinds:
            kinds.remove("number")
        out = []
        for k in kinds:
            if k == "string":
                out.append(self.pick([self.s_string, self.s_string_enum])())
            elif k == "integer":
                out.append(self.s_integer())
            elif k == "boolean":
                out.append(self.s_bool())
            elif k == "null":
                out.append(self.s_null())
            elif k == "object":
                out.append(self.s_object(d + 1))
            else:
                out.append(self.s_array(d + 1))
        return out

    def s_oneof_objects(self, d):
        """oneOf of object branches made exclusive by a distinct required member each; optionally all branches carry
        a single-valued string discriminator that is required in some branches only (so it is NOT a serde tag)."""
        self.use("oneof_objects")
        n = self.r.randrange(2, 4)
        names = self.sample([p for p in PROP_NAMES if p not in ("kind", "type")], n * 2)
        disc = self.pick([None, "kind", "type"])
        vals = self.variant_names(n)
        required_disc = [self.chance(0.5) for _ in range(n)]
        if disc and all(required_disc):
            required_disc[self.r.randrange(n)] = False
        branches = []
        for i in range(n):
            own, other = names[2 * i], names[2 * i + 1]
            props = {own: self.simple(), other: self.pick([{"type": "integer"}, {"type": "string"}, {"type": "boolean"}])}
            req = [own]
            if disc:
                props[disc] = {"type": "string", "enum": [vals[i]]}
                if required_disc[i]:
                    req.append(disc)
            branches.append({"type": "object", "properties": props, "required": req, "additionalProperties": False})
        return {"oneOf": branches}

    def s_oneof_untagged(self, d):
        self.use("oneof_untagged")
        return {"oneOf": self.disjoint_branches(d)}

    def s_anyof_exclusive(self, d):
        self.use("anyof_exclusive")
        return {"anyOf": self.disjoint_branches(d)}

    def s_allof_objects(self, d):
        self.use("allof_objects")
        n = self.r.randrange(2, 4)
        names = self.sample(PROP_NAMES, self.r.randrange(n, 7))
        branches = []
        for i in range(n):
            mine = names[i::n]
            props, required = self.props(d, names=mine)
            b = {"type": "object", "properties": props}
            if required:
                b["required"] = required
            branches.append(b)
        if self.def_pool and self.chance(0.2):
            self.use("allof_ref")
        return {"allOf": branches}

    # outside F -------------------------------------------------------------
    def s_g_only(self, d):
        k = self.r.randrange(6)
        if k == 0:
            self.use("g_anyof_overlap")
            return {"anyOf": [self.s_object(d + 1), self.s_object(d + 1)]}
        if k == 1:
            self.use("g_multitype")
            return {"type": self.sample(["string", "integer", "boolean", "array", "object", "number"], self.r.randrange(2, 4))}
        if k == 2:
            self.use("g_ifthenelse")
            return {"if": {"type": "string"}, "then": self.s_string(), "else": self.s_integer()}
        if k == 3 and self.def_pool:
            self.use("g_ref_plus")
            return {"$ref": "#/definitions/" + self.pick(self.def_pool), "description": "with extras",
                    "required": [self.pick(PROP_NAMES)]}
        if k == 4:
            self.use("g_const")
            return {"const": self.pick(["k", 1, True, None])}
        self.use("g_mixed_bag")
        s = self.s_object(d + 1)
        s.update({"minProperties": 1, "title": "Titled%d" % self.title_n})
        self.title_n += 1
        return s

    # -- entry --------------------------------------------------------------
    def schema(self, d, no_null=False):
        if d >= self.max_depth:
            if self.def_pool and self.chance(0.25) and self.allowed("ref"):
                return self.s_ref()
            return self.s_scalar(no_null)
        opts = [("scalar", lambda: self.s_scalar(no_null), 5),
                ("array", lambda: self.s_array(d), 2),
                ("object", lambda: self.s_object(d), 3),
                ("oneof_external", lambda: self.s_oneof_external(d), 0.7),
                ("oneof_internal", lambda: self.s_oneof_internal(d), 0.7),
                ("oneof_adjacent", lambda: self.s_oneof_adjacent(d), 0.7),
                ("oneof_untagged", lambda: self.s_oneof_untagged(d), 0.7),
                ("oneof_objects", lambda: self.s_oneof_objects(d), 0.5),
                ("anyof_exclusive", lambda: self.s_anyof_exclusive(d), 0.5),
                ("allof_objects", lambda: self.s_allof_objects(d), 0.6)]
        if not no_null:
            opts.append(("nullable", lambda: self.s_nullable(d), 1.2))
        if self.def_pool:
            opts.append(("ref", self.s_ref, 2))
        if self.profile == "G":
            opts.append(("g_only", lambda: self.s_g_only(d), 1.5))
        opts = [o for o in opts if self.allowed(o[0])]
        s = self.weighted(opts)()
        if self.chance(0.1) and isinstance(s, dict) and "$ref" not in s:
            s = dict(s)
            s["description"] = "desc %d" % self.r.randrange(100)
        return s

    def top_schema(self):
        """Schema for a named definition: biased to named kinds."""
        opts = [("object", lambda: self.s_object(0), 4),
                ("any", lambda: self.schema(0), 4),
                ("oneof_external", lambda: self.s_oneof_external(0), 1),
                ("oneof_internal", lambda: self.s_oneof_internal(0), 1),
                ("oneof_adjacent", lambda: self.s_oneof_adjacent(0), 1),
                ("oneof_untagged", lambda: self.s_oneof_untagged(0), 1),
                ("oneof_objects", lambda: self.s_oneof_objects(0), 0.7),
                ("string_enum", lambda: self.s_string_enum(False), 1),
                ("string", self.s_string, 1),
                ("allof_objects", lambda: self.s_allof_objects(0), 0.7)]
        opts = [o for o in opts if self.allowed(o[0]) or o[0] == "any"]
        return self.weighted(opts)()

    def document(self, ndefs=None):
        r = self.r
        self.used = []
        ndefs = ndefs or r.randrange(1, 5)
        names = self.sample(DEF_NAMES, ndefs)
        self.def_pool = names if self.chance(0.7) else []
        defs = {}
        for nm in names:
            s = self.top_schema()
            while isinstance(s, dict) and s.get("$ref") == "#/definitions/" + nm:
                s = self.top_schema()  # a definition that is only a reference to itself is meaningless
            defs[nm] = s
        if self.avoid:
            # definitions that are only references to one another (A -> B -> A) are the recorded finding KF-C01-3
            for nm in names:
                seen, cur = [], nm
                while isinstance(defs.get(cur), dict) and set(defs[cur]) <= {"$ref", "description"} and "$ref" in defs[cur] and cur not in seen:
                    seen.append(cur)
                    cur = defs[cur]["$ref"].rsplit("/", 1)[-1]
                if cur in seen:
                    defs[nm] = {"type": "object", "properties": {"broken_alias_cycle": {"type": "boolean"}}}
        return {"definitions": defs}

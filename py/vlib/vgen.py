"""Build and run vgen (the case runner linked against /repo/typify-impl)."""
import json
import os
import shutil
from concurrent.futures import ThreadPoolExecutor

from . import util

VGEN_DIR = os.path.join(util.VERIF, "vgen")
TARGET = os.path.join(util.WORK, "target-vgen")
BIN = os.path.join(TARGET, "debug", "vgen")


class BuildError(Exception):
    pass


def build():
    """(Re)build vgen from /repo's current working tree with hooks enabled."""
    os.makedirs(util.WORK, exist_ok=True)
    env = util.cargo_env({"CARGO_TARGET_DIR": TARGET})
    rc, so, se, dt = util.run(["cargo", "build", "--offline", "-q"], cwd=VGEN_DIR, env=env,
                              timeout=1800)
    if rc != 0:
        raise BuildError("vgen build failed (rc=%s):\n%s" % (rc, se[-4000:]))
    util.log("[vgen] build ok in %.1fs" % dt)
    return BIN


def run_cases(cases, wd, shards=None, timeout=900, tag="vgen"):
    """Run cases (list of dicts with 'id') in sharded subprocesses.
    Returns dict id -> result. Aborted cases get {'id', 'abort': {...}};
    cases lost to a watchdog get {'id', 'timeout': True}."""
    if shards is None:
        shards = min(util.NCPU, max(1, len(cases) // 8))
    shards = max(1, shards)
    os.makedirs(wd, exist_ok=True)
    buckets = [[] for _ in range(shards)]
    for i, c in enumerate(cases):
        buckets[i % shards].append(c)
    results = {}

    def one(si):
        b = buckets[si]
        if not b:
            return [], {}, []
        return util.run_resumable(
            lambda inp, outp: [BIN, inp, outp], b, lambda c: c["id"], wd,
            "%s.s%d" % (tag, si), timeout)

    with ThreadPoolExecutor(max_workers=shards) as ex:
        for outs, aborted, timed_out in ex.map(one, range(shards)):
            for o in outs:
                if "id" in o:
                    results[o["id"]] = o
            for k, info in aborted.items():
                results[k] = {"id": k, "abort": info}
            for k in timed_out:
                results[k] = {"id": k, "timeout": True}
    for c in cases:
        if c["id"] not in results:
            results[c["id"]] = {"id": c["id"], "missing": True}
    return results


def ingest_status(res):
    """'ok' | 'err' | 'panic' | 'parse_error' | 'abort' | 'timeout' | 'harness'"""
    if res.get("abort"):
        return "abort"
    if res.get("timeout") or res.get("missing"):
        return "timeout"
    if res.get("harness_error"):
        return "harness"
    if res.get("ingest_ok"):
        return "ok"
    steps = res.get("steps") or []
    if steps:
        return steps[-1].get("result", "harness")
    return "harness"


def hook_labels(res):
    labs = []
    for h in res.get("hooks") or []:
        k = h.get("k")
        d = h.get("d")
        if k == "arm":
            labs.append("arm:" + str(d))
        elif k == "tagging":
            labs.append("tag:" + str(d.get("tag", "")).split(" ")[0].split("{")[0])
        elif k == "assign":
            labs.append("assign:" + str(d.get("how")))
        elif k == "box":
            labs.append("box")
        elif k == "xrust":
            labs.append("xrust")
    return labs

"""Common pipeline: cases -> vgen -> stage-2 (compile + run probes)."""
import json
import os

from . import driver, stage2, util, vgen


def ints_in(v):
    if isinstance(v, bool):
        return
    if isinstance(v, int):
        yield v
    elif isinstance(v, dict):
        for x in v.values():
            yield from ints_in(x)
    elif isinstance(v, list):
        for x in v:
            yield from ints_in(x)


def within_i64(v):
    return all(-2**63 <= i <= 2**63 - 1 for i in ints_in(v))


def within_u64(v):
    """i64 range extended upwards to u64: the generator only emits such values where a uint64/uint format admits them."""
    return all(-2**63 <= i <= 2**64 - 1 for i in ints_in(v))


class Run:
    """One generate->compile->execute run for a property."""

    def __init__(self, prop, name="main"):
        self.prop = prop
        self.name = name
        self.wd = util.workdir(prop, name)
        self.results = {}
        self.info = {}
        self.s2 = None

    def vgen(self, cases, shards=None, timeout=900):
        with open(os.path.join(self.wd, "cases.jsonl"), "w") as f:
            for c in cases:
                f.write(json.dumps(c) + "\n")
        self.cases = {c["id"]: c for c in cases}
        self.results = vgen.run_cases(cases, os.path.join(self.wd, "vgen"), shards=shards, timeout=timeout)
        return self.results

    def compile(self, ids=None, nshards=None, bounds_fn=None, want_builder=True, want_str=True,
                want_default=True, origin_fn=None, driver_extra_fn=None):
        """Build a stage-2 workspace holding every case whose output parsed."""
        self.s2 = stage2.Stage2(self.prop, "s2_" + self.name, nshards=nshards)
        for cid, res in self.results.items():
            if ids is not None and cid not in ids:
                continue
            if res.get("syn") != "ok" or "code" not in res:
                continue
            drv, info = driver.emit(res, want_builder=want_builder, want_str=want_str,
                                    want_default=want_default)
            if driver_extra_fn:
                drv = driver_extra_fn(cid, res, drv)
            self.info[cid] = info
            tm = (self.cases[cid].get("settings") or {}).get("type_mod")
            bounds = bounds_fn(cid, res) if bounds_fn else None
            origin = origin_fn(cid, res) if origin_fn else None
            self.s2.add_case(cid, res["code"], drv, bounds=bounds, type_mod=tm, origin_code=origin)
        if not self.s2.order:
            return False
        self.s2.build()
        return True

    def probe(self, probes, timeout=900):
        return self.s2.run(probes, timeout=timeout)


def schema_shape(s, depth=0):
    """Coarse shape signature of a schema (for distinctness counting)."""
    if not isinstance(s, dict):
        return str(s)
    keys = sorted(k for k in s.keys() if k not in ("description", "title", "default"))
    parts = []
    for k in keys:
        v = s[k]
        if k == "type":
            parts.append("type=%s" % (v if isinstance(v, str) else "+".join(v)))
        elif k in ("properties", "patternProperties", "definitions") and depth < 3:
            parts.append("%s{%s}" % (k, ",".join(schema_shape(x, depth + 1) for x in v.values())))
        elif k in ("oneOf", "anyOf", "allOf") and depth < 3:
            parts.append("%s[%s]" % (k, ",".join(schema_shape(x, depth + 1) for x in v)))
        elif k == "items" and depth < 3:
            parts.append("items(%s)" % (schema_shape(v, depth + 1) if not isinstance(v, list)
                                        else ",".join(schema_shape(x, depth + 1) for x in v)))
        elif k in ("additionalProperties", "not") and isinstance(v, dict) and depth < 3:
            parts.append("%s(%s)" % (k, schema_shape(v, depth + 1)))
        elif k == "format":
            parts.append("format=%s" % v)
        elif k == "$ref":
            parts.append("$ref")
        else:
            parts.append(k)
    return ";".join(parts)


def value_shape(v, depth=0):
    if isinstance(v, dict):
        if depth > 3:
            return "{..}"
        return "{" + ",".join("%s:%s" % (k, value_shape(x, depth + 1)) for k, x in sorted(v.items())) + "}"
    if isinstance(v, list):
        if depth > 3:
            return "[..]"
        return "[" + ",".join(value_shape(x, depth + 1) for x in v[:4]) + "]"
    if v is None:
        return "n"
    if isinstance(v, bool):
        return "b"
    if isinstance(v, int):
        return "i"
    if isinstance(v, float):
        return "f"
    return "s"

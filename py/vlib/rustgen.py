"""Generator of random universes of serde-derivable Rust type definitions
(serde + schemars derives) for C04."""

PRIMS = ["bool", "i8", "u8", "i16", "u16", "i32", "u32", "i64", "u64", "f32", "f64", "String"]
HASHABLE = ["String", "u32", "i64", "bool"]
CASINGS = ["lowercase", "UPPERCASE", "PascalCase", "camelCase", "snake_case", "SCREAMING_SNAKE_CASE", "kebab-case"]
FIELD_NAMES = ["alpha", "beta_gamma", "count", "name", "value_of_it", "id", "kind", "x", "y_pos", "items", "flag", "meta_data"]
VARIANT_NAMES = ["Alpha", "BetaGamma", "Unit", "Point", "WithData", "Other", "Kind", "Xy"]
TYPE_NAMES = ["Widget", "Gadget", "Node", "Tree", "Config", "Shape", "Event", "Record", "Leaf", "Payload", "Color", "Mode"]


CUSTOM_DEFAULTS = [
    ("u32", "7"), ("i64", "-3"), ("String", '"preset".to_string()'), ("bool", "true"), ("f64", "1.5"),
    ("Vec<i64>", "vec![1, 2]"), ("Vec<String>", 'vec!["a".to_string()]'),
    ("::std::collections::BTreeMap<String, String>", '[("tier".to_string(), "free".to_string())].into_iter().collect()'),
    ("::std::collections::HashMap<String, u32>", '[("n".to_string(), 3u32)].into_iter().collect()'),
    ("::std::collections::BTreeSet<String>", '["u".to_string()].into_iter().collect()'),
    ("Option<u32>", "Some(5)"), ("Option<String>", 'Some("x".to_string())'), ("(u8, bool)", "(9, true)"),
]


class U:
    def __init__(self, r):
        self.r = r
        self.defs = []       # (name, source, info)
        self.names = []      # defined so far (usable by value)
        self.all_names = []
        self.default_ok = set()   # types implementing Default
        self.helpers = []
        self.untagged_tuples = None

    def chance(self, p):
        return self.r.random() < p

    def ty(self, depth, self_name=None, need_default=False):
        """A field type. Returns (rust type string, implements Default)."""
        r = self.r
        k = r.random()
        if depth >= 2 or k < 0.35:
            if self.names and r.random() < 0.35:
                n = r.choice(self.names)
                return n, n in self.default_ok
            return r.choice(PRIMS), True
        if k < 0.47:
            t, _ = self.ty(depth + 1, self_name)
            return "Option<%s>" % t, True
        if k < 0.6:
            t, _ = self.ty(depth + 1, self_name)
            return "Vec<%s>" % t, True
        if k < 0.68:
            t, _ = self.ty(depth + 1, self_name)
            m = r.choice(["::std::collections::HashMap", "::std::collections::BTreeMap"])
            return "%s<String, %s>" % (m, t), True
        if k < 0.73:
            return "::std::collections::BTreeSet<%s>" % r.choice(HASHABLE), True
        if k < 0.82:
            n = r.randrange(1, 4)
            ts = [self.ty(depth + 1, self_name) for _ in range(n)]
            inner = ", ".join(t for t, _ in ts)
            return "(%s%s)" % (inner, "," if n == 1 else ""), all(d for _, d in ts)
        if k < 0.88:
            t, d = self.ty(depth + 1, self_name)
            return "[%s; %d]" % (t, r.randrange(1, 4)), False
        if k < 0.94:
            t, d = self.ty(depth + 1, self_name)
            return "Box<%s>" % t, d
        if self_name and k < 0.985:
            # recursion through a heap indirection
            return r.choice(["Option<Box<%s>>", "Vec<%s>", "::std::collections::BTreeMap<String, %s>"]) % self_name, True
        t, d = self.ty(depth + 1, self_name)
        return "Option<%s>" % t, True

    def fields(self, self_name, n=None, allow_attrs=True):
        r = self.r
        n = r.randrange(0, 5) if n is None else n
        names = r.sample(FIELD_NAMES, n)
        out = []
        all_default = True
        for fname in names:
            t, has_default = self.ty(0, self_name)
            attrs = []
            if allow_attrs and self.chance(0.12):
                # a member with its own default function (schemars records the value it returns as the schema default)
                t, expr = r.choice(CUSTOM_DEFAULTS)
                fn = "dflt_%s_%s_%d" % (self_name.lower(), fname, len(self.helpers))
                self.helpers.append("pub fn %s() -> %s { %s }\n" % (fn, t, expr))
                attrs.append('#[serde(default = "%s")]' % fn)
                has_default = False
                out.append((fname, t, attrs))
                all_default = False
                continue
            if allow_attrs:
                if has_default and self.chance(0.2):
                    attrs.append("#[serde(default)]")
                elif t.startswith("Option<") and self.chance(0.3):
                    attrs.append('#[serde(default, skip_serializing_if = "Option::is_none")]')
                if self.chance(0.15):
                    attrs.append('#[serde(rename = "%s")]' % r.choice(["renamed-%s" % fname, fname.upper(), "type", "r#%s" % fname[:2]]).replace("r#", "r_"))
            all_default = all_default and has_default
            out.append((fname, t, attrs))
        return out, all_default

    def struct(self, name):
        r = self.r
        k = r.random()
        cont = []
        if self.chance(0.35):
            cont.append('rename_all = "%s"' % r.choice(CASINGS))
        derive = "#[derive(Debug, Clone, PartialEq, ::serde::Serialize, ::serde::Deserialize, ::schemars::JsonSchema)]"
        if k < 0.65:
            fs, all_default = self.fields(name)
            if self.chance(0.25):
                cont.append("deny_unknown_fields")
            body = "\n".join("    %s\n    pub %s: %s," % (" ".join(a), f, t) if a else "    pub %s: %s," % (f, t)
                             for f, t, a in fs)
            src = "%s\n%spub struct %s {\n%s\n}\n" % (derive, "#[serde(%s)]\n" % ", ".join(cont) if cont else "", name, body)
            kind = "struct"
        elif k < 0.8:
            n = r.randrange(2, 4)
            ts = [self.ty(1, name)[0] for _ in range(n)]
            src = "%s\npub struct %s(%s);\n" % (derive, name, ", ".join("pub " + t for t in ts))
            kind = "tuple_struct"
        elif k < 0.93:
            t = self.ty(0, name)[0]
            src = "%s\npub struct %s(pub %s);\n" % (derive, name, t)
            kind = "newtype_struct"
        else:
            src = "%s\npub struct %s;\n" % (derive, name)
            kind = "unit_struct"
        return src, kind

    def enum(self, name):
        r = self.r
        tagging = r.choice(["external", "external", "internal", "adjacent", "untagged"])
        cont = []
        if tagging == "internal":
            cont.append('tag = "%s"' % r.choice(["type", "kind", "t"]))
        elif tagging == "adjacent":
            tg, ct = r.choice([("type", "content"), ("t", "c"), ("tag", "data"), ("kind", "value"), ("a", "b"), ("t", "v")])
            cont.append('tag = "%s", content = "%s"' % (tg, ct))
        elif tagging == "untagged":
            cont.append("untagged")
        if self.chance(0.35):
            cont.append('rename_all = "%s"' % r.choice(CASINGS))
        if self.chance(0.15) and tagging != "untagged":
            cont.append("deny_unknown_fields")
        nv = r.randrange(1, 5)
        vnames = r.sample(VARIANT_NAMES, nv)
        self.untagged_tuples = None
        if tagging == "untagged" and self.chance(0.4):
            self.untagged_tuples = r.sample(["(u8, u8, u8)", "(u8, bool)", "(i32, u8, u8, bool)"], 2)
            r.shuffle(vnames)
        variants = []
        struct_like = [n for n in self.names if n in self.struct_names]
        for i, vn in enumerate(vnames):
            k = r.random()
            attrs = ""
            if self.chance(0.12):
                attrs = '    #[serde(rename = "%s")]\n' % r.choice(["renamed-%s" % vn.lower(), vn.upper(), "v%d" % i])
            if tagging == "untagged":
                # keep variants distinguishable by JSON type so that the origin type round-trips
                kinds = ["String", "i64", "bool", "Vec<String>"]
                if self.untagged_tuples:
                    # tuple variants of different arity (told apart by their length), in either order
                    kinds = ["String", "bool"] + self.untagged_tuples
                if struct_like:
                    kinds.append(r.choice(struct_like))
                if i < len(kinds):
                    variants.append("%s    %s(%s)," % (attrs, vn, kinds[i]))
                continue
            if k < 0.3:
                variants.append("%s    %s," % (attrs, vn))
            elif k < 0.55 and tagging != "internal":
                variants.append("%s    %s(%s)," % (attrs, vn, self.ty(1, name)[0]))
            elif k < 0.55 and tagging == "internal" and struct_like:
                variants.append("%s    %s(%s)," % (attrs, vn, r.choice(struct_like)))
            elif k < 0.7 and tagging != "internal":
                n = r.randrange(2, 4)
                variants.append("%s    %s(%s)," % (attrs, vn, ", ".join(self.ty(1, name)[0] for _ in range(n))))
            else:
                fs, _ = self.fields(name, n=r.randrange(1, 4))
                va = ""
                if self.chance(0.2):
                    va = '    #[serde(rename_all = "%s")]\n' % r.choice(CASINGS)
                body = " ".join("%s %s: %s," % (" ".join(a), f, t) for f, t, a in fs)
                variants.append("%s%s    %s { %s }," % (attrs, va, vn, body))
        if not variants:
            variants.append("    Unit,")
        derive = "#[derive(Debug, Clone, PartialEq, ::serde::Serialize, ::serde::Deserialize, ::schemars::JsonSchema)]"
        src = "%s\n%spub enum %s {\n%s\n}\n" % (derive, "#[serde(%s)]\n" % ", ".join(cont) if cont else "", name, "\n".join(variants))
        return src, "enum_" + tagging

    def build(self):
        r = self.r
        n = r.randrange(2, 7)
        self.all_names = r.sample(TYPE_NAMES, n)
        self.struct_names = set()
        kinds = {}
        for name in self.all_names:
            if r.random() < 0.55:
                src, kind = self.struct(name)
                if kind == "struct":
                    self.struct_names.add(name)
            else:
                src, kind = self.enum(name)
            if r.random() < 0.3:
                src = "/// Documentation of %s.\n" % name + src
            self.defs.append((name, src))
            self.names.append(name)
            kinds[name] = kind
        return kinds


DERIVE = "#[derive(Debug, Clone, PartialEq, ::serde::Serialize, ::serde::Deserialize, ::schemars::JsonSchema)]"

# one directed type per universe (rotating), so that every feature below is present in every run of >= 8 universes
FORCED = [
    ("ForcedUntaggedLongFirst", DERIVE + "\n#[serde(untagged)]\npub enum ForcedUntaggedLongFirst {\n    Triple(u8, u8, u8),\n    Pair(u8, bool),\n    Text(String),\n}\n", "enum_untagged"),
    ("ForcedUntaggedShortFirst", DERIVE + "\n#[serde(untagged)]\npub enum ForcedUntaggedShortFirst {\n    Pair(i32, i32),\n    Quad(i32, i32, i32, bool),\n    Flag(bool),\n}\n", "enum_untagged"),
    ("ForcedMapDefault", DERIVE + "\npub struct ForcedMapDefault {\n    pub id: u32,\n    #[serde(default = \"forced_map_default\")]\n    pub labels: ::std::collections::BTreeMap<String, String>,\n}\npub fn forced_map_default() -> ::std::collections::BTreeMap<String, String> { [(\"tier\".to_string(), \"free\".to_string())].into_iter().collect() }\n", "struct"),
    ("ForcedAdjacentRenamed", DERIVE + "\n#[serde(tag = \"t\", content = \"c\", rename_all = \"kebab-case\")]\npub enum ForcedAdjacentRenamed {\n    UnitOne,\n    #[serde(rename_all = \"camelCase\")]\n    WithFields { first_field: Option<(u8, String)>, second_field: Vec<u16> },\n    NewType(Option<u32>),\n}\n", "enum_adjacent"),
    ("ForcedNestedOption", DERIVE + "\npub struct ForcedNestedOption {\n    pub a: Option<Vec<Option<u8>>>,\n    #[serde(default, skip_serializing_if = \"Vec::is_empty\")]\n    pub b: Vec<(String,)>,\n    pub c: [Option<bool>; 2],\n}\n", "struct"),
    ("ForcedInternalNewtype", DERIVE + "\n#[serde(tag = \"kind\", deny_unknown_fields)]\npub enum ForcedInternalNewtype {\n    A { x: u8 },\n    B,\n    #[serde(rename = \"see\")]\n    C { #[serde(default)] y: Option<String> },\n}\n", "enum_internal"),
    ("ForcedTupleStructs", DERIVE + "\npub struct ForcedTupleStructs(pub (u8,), pub Box<ForcedUnit>, pub Option<Box<ForcedTupleStructs>>);\n" + DERIVE + "\npub struct ForcedUnit;\n", "tuple_struct"),
    ("ForcedInternalOneMember", DERIVE + "\n#[serde(tag = \"kind\")]\npub enum ForcedInternalOneMember {\n    Point,\n    Label { text: Option<String> },\n    Note { #[serde(default)] text: String },\n}\n", "enum_internal"),
    ("ForcedInternalSameMember", DERIVE + "\n#[serde(tag = \"t\", rename_all = \"snake_case\")]\npub enum ForcedInternalSameMember {\n    A { value: u8 },\n    B { value: Option<u8> },\n    CUnit,\n}\n", "enum_internal"),
    ("ForcedDocRecursive", "/// A documented, self-referential type (schemars records the comment as `description` on the root).\n" + DERIVE + "\npub struct ForcedDocRecursive {\n    /// the children\n    pub children: Vec<ForcedDocRecursive>,\n    /// a name\n    #[serde(default)]\n    pub name: String,\n    pub parent: Option<Box<ForcedDocRecursive>>,\n}\n", "struct"),
    ("ForcedDocEnum", "/// Documented enum.\n" + DERIVE + "\n#[serde(tag = \"k\")]\npub enum ForcedDocEnum {\n    /// leaf\n    Leaf { /// payload\n v: u8 },\n    /// node\n    Node { kids: Vec<ForcedDocEnum> },\n}\n", "enum_internal"),
    ("ForcedUntaggedOptionNumeric", DERIVE + "\n#[serde(untagged)]\npub enum ForcedUntaggedOptionNumeric {\n    Count(Option<u32>),\n    Level(f64),\n    Name(String),\n}\n", "enum_untagged"),
    ("ForcedAdjacentTagFirst", DERIVE + "\n#[serde(tag = \"kind\", content = \"value\")]\npub enum ForcedAdjacentTagFirst {\n    Empty,\n    Circle(f64),\n    Rect { w: u32, h: u32 },\n    Pair(u8, String),\n}\n", "enum_adjacent"),
    ("ForcedFloatMaps", DERIVE + "\n#[serde(rename_all = \"SCREAMING-KEBAB-CASE\")]\npub struct ForcedFloatMaps {\n    pub float_map: ::std::collections::HashMap<String, f32>,\n    pub set_of: ::std::collections::BTreeSet<i64>,\n    #[serde(rename = \"type\")]\n    pub type_: u64,\n}\n", "struct"),
]


def gen_universe(r, index=None):
    """Returns (rust source of the type definitions, root type names, kinds)."""
    u = U(r)
    kinds = u.build()
    src = "\n".join(s for _, s in u.defs) + "\n" + "".join(u.helpers)
    roots = list(u.all_names)
    if index is not None:
        name, fsrc, kind = FORCED[index % len(FORCED)]
        src += "\n" + fsrc
        roots.append(name)
        kinds[name] = kind
        if name == "ForcedTupleStructs":
            roots.append("ForcedUnit")
            kinds["ForcedUnit"] = "unit_struct"
    return src, roots, kinds

"""Shared helpers: seeded PRNG streams, paths, subprocess helpers, evidence and
violation bookkeeping, known-findings filter."""
import hashlib
import json
import os
import random
import subprocess
import sys
import time

VERIF = os.path.dirname(os.path.dirname(os.path.dirname(os.path.abspath(__file__))))
REPO = "/repo"
WORK = os.path.join(VERIF, "work")
CFG_FLAG = "--cfg typify_verif"
NCPU = os.cpu_count() or 4


def rng(seed, *stream):
    """Independent deterministic stream keyed by (seed, stream names)."""
    key = json.dumps([seed] + [str(s) for s in stream])
    h = hashlib.sha256(key.encode()).digest()
    return random.Random(int.from_bytes(h[:16], "big"))


def sha(s):
    if isinstance(s, str):
        s = s.encode()
    return hashlib.sha256(s).hexdigest()


def jdump(x):
    return json.dumps(x, sort_keys=True, ensure_ascii=False)


def cargo_env(extra=None):
    env = dict(os.environ)
    env["CARGO_NET_OFFLINE"] = "true"
    env["RUSTFLAGS"] = CFG_FLAG
    # the stage-2 crates are regenerated on every run: incremental caches only pile up (80 GB after a day of runs)
    env["CARGO_INCREMENTAL"] = "0"
    env.pop("RUSTC_WRAPPER", None)
    env.pop("TYPIFY_VERIF_LOG", None)
    if extra:
        env.update(extra)
    return env


def log(*a):
    print(*a, file=sys.stderr, flush=True)


def workdir(prop, *sub):
    d = os.path.join(WORK, prop, *sub)
    os.makedirs(d, exist_ok=True)
    return d


def run(cmd, cwd=None, env=None, timeout=None, capture=True):
    t0 = time.time()
    try:
        p = subprocess.run(cmd, cwd=cwd, env=env, timeout=timeout,
                           stdout=subprocess.PIPE if capture else None,
                           stderr=subprocess.PIPE if capture else None)
        return p.returncode, (p.stdout or b"").decode("utf-8", "replace"), \
            (p.stderr or b"").decode("utf-8", "replace"), time.time() - t0
    except subprocess.TimeoutExpired as e:
        return "timeout", (e.stdout or b"").decode("utf-8", "replace"), \
            (e.stderr or b"").decode("utf-8", "replace"), time.time() - t0


def _popen_watch(cmd, outp, timeout, item_timeout):
    """Run cmd; kill it if the whole run exceeds `timeout` or if the progress
    file names the same item for longer than `item_timeout` seconds.
    Returns (rc | 'timeout' | 'item_timeout', stderr_tail)."""
    import tempfile
    t0 = time.time()
    errf = tempfile.TemporaryFile()
    p = subprocess.Popen(cmd, stdout=subprocess.DEVNULL, stderr=errf)
    prog_path = outp + ".progress"
    last_prog, last_change = None, time.time()
    verdict = None
    while True:
        try:
            rc = p.wait(timeout=0.25)
            verdict = rc
            break
        except subprocess.TimeoutExpired:
            pass
        now = time.time()
        try:
            cur = open(prog_path).read()
        except OSError:
            cur = None
        if cur != last_prog:
            last_prog, last_change = cur, now
        if item_timeout and now - last_change > item_timeout:
            p.kill()
            p.wait()
            verdict = "item_timeout"
            break
        if timeout and now - t0 > timeout:
            p.kill()
            p.wait()
            verdict = "timeout"
            break
    errf.seek(0)
    se = errf.read().decode("utf-8", "replace")[-3000:]
    errf.close()
    return verdict, se


def run_resumable(make_cmd, items, key, workdir_, tag, timeout, max_restarts=60, item_timeout=30):
    """Run a binary over `items` (JSON lines); the binary writes the key of the
    item being processed (optionally followed by a tab and a phase name) to
    <out>.progress. A process abort (stack overflow, SIGSEGV, alloc failure) or a
    per-item watchdog is attributed to that item; the rest is resumed.
    Returns (outputs, aborted {key: info}, timed_out keys)."""
    outs = []
    aborted = {}
    timed_out = []
    remaining = list(items)
    rounds = 0
    t_start = time.time()
    while remaining:
        rounds += 1
        inp = os.path.join(workdir_, "%s.in.%d.jsonl" % (tag, rounds))
        outp = os.path.join(workdir_, "%s.out.%d.jsonl" % (tag, rounds))
        for p in (outp, outp + ".progress"):
            if os.path.exists(p):
                os.remove(p)
        with open(inp, "w") as f:
            for it in remaining:
                f.write(json.dumps(it) + "\n")
        left = None if not timeout else max(5, timeout - (time.time() - t_start))
        rc, se = _popen_watch(make_cmd(inp, outp), outp, left, item_timeout)
        got = []
        if os.path.exists(outp):
            with open(outp) as f:
                for line in f:
                    line = line.strip()
                    if not line:
                        continue
                    try:
                        got.append(json.loads(line))
                    except Exception:
                        pass  # truncated last line after an abort
        outs.extend(got)
        prog, phase = None, None
        if os.path.exists(outp + ".progress"):
            prog = open(outp + ".progress").read().strip()
            if "\t" in prog:
                prog, phase = prog.split("\t", 1)
        if rc == 0 and prog == "DONE":
            break
        if rc == "timeout":
            timed_out.extend(key(it) for it in remaining[len(got):])
            break
        idx = None
        for i, it in enumerate(remaining):
            k = key(it)
            if str(k) == prog or json.dumps(k) == prog:
                idx = i
                break
        if idx is None:
            timed_out.extend(key(it) for it in remaining[len(got):])
            break
        aborted[key(remaining[idx])] = {"rc": rc, "phase": phase, "stderr": se[-1500:],
                                        "hang": rc == "item_timeout"}
        remaining = remaining[idx + 1:]
        if rounds > max_restarts:
            timed_out.extend(key(it) for it in remaining)
            break
    return outs, aborted, timed_out


class Findings:
    """Known findings: /verif/known_findings.json (committed, read-only here).

    entry = {id, property, status: open|fixed, what, match: {kind, pred, args}}
    A violation is covered only if an *open* entry of the same property has the
    same kind and its cause predicate (looked up in `preds`) holds for it."""

    def __init__(self, prop, preds=None):
        self.prop = prop
        self.preds = preds or {}
        p = os.path.join(VERIF, "known_findings.json")
        self.entries = []
        if os.path.exists(p):
            data = json.load(open(p))
            self.entries = [e for e in data.get("findings", []) if e.get("property") == prop]
        self.hits = {}

    def classify(self, v):
        for e in self.entries:
            if e.get("status") != "open":
                continue
            m = e.get("match", {})
            if m.get("kind") != v.get("kind"):
                continue
            pred = self.preds.get(m.get("pred"))
            if pred is None:
                continue
            try:
                ok = pred(v, **m.get("args", {}))
            except Exception:
                ok = False
            if ok:
                self.hits.setdefault(e["id"], []).append(v)
                return e
        return None


class Report:
    """Collects violations / counters for one check run and writes evidence."""

    def __init__(self, prop, tier, seed, level="exploration"):
        self.prop = prop
        self.tier = tier
        self.seed = seed
        self.level = level
        self.t0 = time.time()
        self.violations = []
        self.counters = {}
        self.samples = []
        self.nontrivial = set()
        self.evaluations = 0
        self.assumptions = []
        self.notes = {}
        self.inconclusive = []
        self.rule = ""
        self.exhaustive = None
        self.vdir = os.path.join(WORK, prop, "violations")
        os.makedirs(self.vdir, exist_ok=True)
        for f in os.listdir(self.vdir):
            os.remove(os.path.join(self.vdir, f))

    def count(self, k, n=1):
        self.counters[k] = self.counters.get(k, 0) + n

    def violation(self, kind, site, detail, case=None, **extra):
        v = {"property": self.prop, "kind": kind, "site": site, "detail": detail,
             "seed": self.seed, "tier": self.tier}
        v.update(extra)
        if case is not None:
            v["case"] = case
        self.violations.append(v)
        return v

    def sample(self, s, limit=6):
        if len(self.samples) < limit:
            self.samples.append(s)

    def finish(self, findings=None, min_nontrivial=2, extra_cov=None):
        """Print verdict lines, write evidence, return exit code."""
        unlisted = []
        known = {}
        for v in self.violations:
            e = findings.classify(v) if findings else None
            if e is None:
                unlisted.append(v)
            else:
                known.setdefault(e["id"], (e, []))[1].append(v)
        for eid, (e, vs) in sorted(known.items()):
            print("KNOWN-FINDING: property=%s %s [%s; %d observation(s) this run]" %
                  (self.prop, e["what"], eid, len(vs)))
        # de-duplicate unlisted violations by (kind, site) for reporting
        seen = {}
        for v in unlisted:
            seen.setdefault((v["kind"], v["site"]), []).append(v)
        n = 0
        for (kind, site), vs in sorted(seen.items(), key=lambda kv: str(kv[0])):
            n += 1
            path = os.path.join(self.vdir, "%03d.json" % n)
            with open(path, "w") as f:
                json.dump({"kind": kind, "site": site, "count": len(vs), "first": vs[0],
                           "others": [x.get("detail") for x in vs[1:6]]}, f, indent=1,
                          ensure_ascii=False, default=str)
            print("VIOLATION property=%s replay=%s" % (self.prop, path))
            log("  kind=%s site=%s n=%d detail=%s" % (kind, site, len(vs), str(vs[0].get("detail"))[:400]))
        cov = {
            "evaluations": int(self.evaluations),
            "distinct_nontrivial": len(self.nontrivial),
            "rule": self.rule,
            "samples": self.samples or ["<none>"],
            "counters": self.counters,
        }
        if self.exhaustive is not None:
            cov["exhaustive"] = self.exhaustive
        cov.update(self.notes)
        if extra_cov:
            cov.update(extra_cov)
        inconclusive = list(self.inconclusive)
        if len(self.nontrivial) < min_nontrivial:
            inconclusive.append("only %d distinct non-trivial cases observed (minimum %d)" %
                                (len(self.nontrivial), min_nontrivial))
        cov["inconclusive_reasons"] = inconclusive
        cov["known_findings_observed"] = {k: len(v[1]) for k, v in known.items()}
        ev = {
            "property_id": self.prop,
            "tier": self.tier,
            "seed": int(self.seed),
            "level": self.level,
            "coverage": cov,
            "assumptions": self.assumptions,
            "wall_s": round(time.time() - self.t0, 2),
            "violations": len(seen),
        }
        os.makedirs(os.path.join(VERIF, "evidence"), exist_ok=True)
        with open(os.path.join(VERIF, "evidence", "%s.json" % self.prop), "w") as f:
            json.dump(ev, f, indent=1, ensure_ascii=False, default=str)
        log("[%s] evaluations=%d distinct_nontrivial=%d violations=%d known=%d wall=%.1fs" %
            (self.prop, self.evaluations, len(self.nontrivial), len(seen), len(known), ev["wall_s"]))
        log("[%s] counters: %s" % (self.prop, json.dumps(self.counters, sort_keys=True)))
        if seen:
            return 1
        if inconclusive:
            for r in inconclusive:
                print("INCONCLUSIVE property=%s %s" % (self.prop, r))
            return 2
        return 0

#!/bin/bash
# eval_mutant.sh <patch.diff> <Cnn> [<Cnn>...]   apply a seeded change to /repo, run quick checks, undo it
# env: TIER (default quick), SEEDS (default "0")
set -u
patch=$1; shift
cd /repo || exit 2
if ! git diff --quiet; then echo "repo has local modifications; refusing"; exit 2; fi
git apply "$patch" || { echo "patch does not apply"; exit 2; }
trap 'git -C /repo checkout -- . ; git -C /repo clean -fdq -- typify-impl typify-macro cargo-typify typify 2>/dev/null' EXIT
cd /verif
for seed in ${SEEDS:-0}; do
for p in "$@"; do
  out=$(VERIF_SEED=$seed ./check $p --tier ${TIER:-quick} 2>&1)
  rc=$?
  echo "== seed=$seed $p rc=$rc  $(echo "$out" | grep -c '^VIOLATION') violation line(s)"
  echo "$out" | grep -A1 '^VIOLATION' | grep -v '^--' | cut -c1-400 | head -8
  echo "$out" | grep '^INCONCLUSIVE' | head -2
done
done

#!/usr/bin/env python3
"""Scratch tool: try_doc.py <doc.json|-> [--def NAME] [--inst JSON ...] [--code] [--settings JSON]
Runs one document through vgen + stage-2 and prints what happened."""
import argparse, json, os, sys
sys.path.insert(0, os.path.join(os.path.dirname(os.path.abspath(__file__)), ".."))
from vlib import pipeline, util, vgen, oracle
from vlib.driver import norm

ap = argparse.ArgumentParser()
ap.add_argument("doc")
ap.add_argument("--def", dest="defn", default=None)
ap.add_argument("--inst", action="append", default=[])
ap.add_argument("--code", action="store_true")
ap.add_argument("--grep", default=None)
ap.add_argument("--settings", default="{}")
ap.add_argument("--violation", action="store_true", help="doc arg is a violation file")
a = ap.parse_args()
raw = json.load(sys.stdin if a.doc == "-" else open(a.doc))
if a.violation:
    f = raw["first"]
    doc = f["doc"]
    a.defn = a.defn or f["detail"].get("def")
    if not a.inst and "instance" in f["detail"]:
        a.inst = [f["detail"]["instance"]]
else:
    doc = raw
run = pipeline.Run("TRY", "t")
res = run.vgen([{"id": "x", "settings": json.loads(a.settings), "history": [{"op": "root", "schema": doc}]}], shards=1)["x"]
print("steps:", res.get("steps"), "render:", res.get("render"), res.get("render_msg"), "syn:", res.get("syn"))
if res.get("abort"): print("ABORT", res["abort"])
if a.code and res.get("code"):
    code = res["code"]
    i = code.find("///") if "pub mod error" in code[:200] else 0
    # skip the error module
    j = code.find("\n}\n", code.find("pub mod error")) + 3 if "pub mod error" in code else 0
    body = code[j:]
    if a.grep:
        import re
        # print items mentioning grep
        for blk in body.split("\n///"):
            if re.search(a.grep, blk):
                print("///" + blk)
    else:
        print("\n".join(l for l in body.splitlines() if not l.startswith("///")))
if res.get("syn") == "ok":
    ok = run.compile()
    print("compiled; removed:", run.s2.removed)
    for cid, ds in run.s2.diags.items():
        for d in ds[:5]:
            print(d["rendered"])
    if a.inst and "x" not in run.s2.removed:
        orc = oracle.Oracle(doc)
        defs = res.get("defs") or {}
        names = [a.defn] if a.defn else list(defs.keys())
        probes = []
        for dn in names:
            t = norm(defs[dn]["name"])
            for k, text in enumerate(a.inst):
                probes.append({"pid": len(probes), "case": "x", "ty": t, "op": "de", "input": text, "dn": dn})
        outs, ab, to, sk = run.probe([{k: v for k, v in p.items() if k != "dn"} for p in probes])
        for p in probes:
            try:
                valid = orc.valid(json.loads(p["input"]), p["dn"])
            except Exception as e:
                valid = "oracle error %s" % e
            print(p["dn"], p["ty"], p["input"][:200], "oracle_valid=", valid, "->", json.dumps(outs.get(p["pid"]))[:600])

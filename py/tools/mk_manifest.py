#!/usr/bin/env python3
"""Regenerate /verif/MANIFEST.json from the table below (kept valid at all times)."""
import json
import os
import sys

VERIF = os.path.dirname(os.path.dirname(os.path.dirname(os.path.abspath(__file__))))

NOTE_ORACLE = ("python jsonschema 4.26 (Draft7) as instance oracle under the restrictions listed in the evidence "
               "assumptions; rustc 1.80.1 and the locked serde/serde_json/chrono/uuid/regress; the harness itself "
               "(vgen, stage-2 runtime, python checkers); generators stay out of regions with recorded known findings")

CHECKS = {
    "C01": ("exploration",
            "Runtime monitoring of real executions: grammar / fixture-mutation / small-scope / schemars-emitted / corpus "
            "documents x sampled settings x ingestion histories run through the real TypeSpace; for every case whose "
            "ingestion returned Ok the monitor requires render without panic, syn::parse_file Ok, and zero rustc errors "
            "(JSON diagnostics attributed per case). Held on the executions observed, not a proof.",
            "rustc 1.80.1 + locked dependency versions; ::vrt::support types stand in for replacement/conversion/map "
            "targets; ungraceful rejections (panic/abort at ingest) are outside the property",
            "rustc-diagnostics monitor over generated workloads"),
    "C02": ("exploration",
            "Every oracle-valid instance of every generated faithful-fragment schema is deserialised by the real compiled "
            "output; a rejection or panic is a violation.", NOTE_ORACLE, "reference-oracle monitor over compiled output"),
    "C03": ("exploration",
            "Round trip through the real compiled types; the serialisation is re-validated by the oracle, compared "
            "structurally with the input (prune/containment rule of the property) and round-tripped again.",
            NOTE_ORACLE, "reference-oracle + structural containment monitor over compiled output"),
    "C04": ("exploration",
            "Generated Rust type universes (serde+schemars derives) are compiled and run to emit schemas; typify's output "
            "for both ingestion routes is compiled next to the origin types and values are exchanged as JSON both ways.",
            "schemars 0.8.22 and serde derive as the origin; sample values are those the origin type deserialises from "
            "schema-directed JSON and re-serialises", "differential execution monitor (origin type vs generated type)"),
    "C05": ("exploration",
            "Targeted single-constraint mutants of valid instances (oracle-confirmed, exactly one leaf error of an enforced "
            "keyword) must be rejected by Deserialize; FromStr/TryFrom/Deserialize must agree on every probe string; syn "
            "scan for pub fields / From<Inner> on constrained newtypes.", NOTE_ORACLE,
            "mutation monitor with oracle-classified single-constraint violations"),
    "C06": ("exploration",
            "For valid defaults the value realised by serde-default, Default impl and builder is read from the running "
            "compiled code and compared with the schema default and with what the type's own deserialiser makes of the "
            "explicitly written default (nested-default filling); invalid defaults must make ingestion return Err.",
            NOTE_ORACLE, "observed-default monitor over compiled output + ingest result monitor"),
    "C07": ("exploration",
            "Containment graph of the generated types is read through Type::details() and checked acyclic by an independent "
            "DFS for every reference graph of an enumerated space (n<=2 complete over 7 edge kinds, n=3 complete over a "
            "reduced alphabet in the thorough tier) plus random graphs; acyclic schemas must contain no Box; rustc E0072 "
            "and recursive-value round trips on a compiled sample.",
            "the introspection API reports the structure that is rendered (cross-checked by C17); rustc as second observer",
            "graph invariant monitor at the API boundary, exhaustive small scope"),
    "C08": ("exploration",
            "All strings up to length 3 (quick) / 4 (thorough) over a 12-symbol alphabet, keyword tables and colliding pairs "
            "are used as property names, enum values and definition keys; the parsed output is checked for identifier "
            "validity, per-scope distinctness and exact serde names; a sample is compiled and round-tripped under the "
            "original names.", "syn as the lexer oracle for identifiers; serde attribute semantics",
            "syn-facts monitor + compiled round trip"),
    "C09": ("exploration",
            "allOf compositions in every permutation are compiled; acceptance vectors and round trips over oracle-classified "
            "candidates must agree across permutations and accept every oracle-valid candidate; unsatisfiable merges must "
            "reject everything.", NOTE_ORACLE, "permutation-differential + reference-oracle monitor"),
    "C10": ("exploration",
            "Exhaustive boundary lattice: every (format, minimum|exclusiveMinimum, maximum|exclusiveMaximum) combination is "
            "run through the real generator; the chosen builtin type is read through the API and compared, with exact "
            "integer arithmetic, against every admitted lattice value; default range errors and string/float format tables.",
            "exact python integers as oracle; i64 accepted as the documented fallback; f64 representation of bounds in "
            "schemars limits default judgements beyond 2^53",
            "exhaustive boundary enumeration with arithmetic oracle"),
    "C11": ("exploration",
            "For every string-convertible generated type, parse / TryFrom<&str|String|&String> / Deserialize are executed on "
            "the same probe strings and must agree in outcome and value; Display must equal the serialised string.",
            "compiled output under rustc 1.80.1; probe strings include members, near-misses, boundary lengths, multi-byte text",
            "agreement monitor over compiled conversions"),
    "C12": ("exploration",
            "Every case is rendered in K fresh processes (fresh hash seeds) x P key-order permutations and twice in-process; "
            "all digests must be equal; a CLI sample and the import_types! macro rebuilt in fresh rustc processes (token streams "
            "from the hook log) are compared the same way.", "a 2-element hash-order dependence escapes K runs with probability 2^-(K-1)",
            "multi-process output digest comparison"),
    "C13": ("exploration",
            "The full decision table (crate config x policy x semver triples x rename x parameters x use site x malformed "
            "variants) is executed against the real generator and compared with a reference decision function written from "
            "the README; semver expectations come from a fixed documentation table.",
            "README as specification; reference decision function (30 lines) and the semver table are trusted",
            "exhaustive decision-table monitor against a reference model"),
    "C14": ("exploration",
            "Syntactic obligations on the parsed output (replacement/conversion/patch/derive/map-type at every use site) and "
            "behavioural equality of unaffected types with the default-settings run.",
            "syn facts; ::vrt::support stand-in types", "syn-facts monitor + differential behaviour vectors"),
    "C15": ("exploration",
            "The real cargo-typify binary (under strace) and the real import_types! macro (inside rustc, observed through the "
            "hook log) are run on the same schema/options as the builder; items are compared token for token; file effects "
            "of the CLI are read from the syscall trace.",
            "strace for file effects; hook log as the only window into the proc-macro",
            "differential front-end monitor + syscall trace"),
    "C16": ("exploration",
            "API-call histories are executed against one TypeSpace with a snapshot of every type id and a re-render after "
            "each call; old ids must not change, re-adds must return the same ident and add nothing, no duplicate item "
            "names, and independent additions must give the same definitions for every split/order.",
            "type ids are positions in iter_types() (checked against returned ids)",
            "history monitor with per-call snapshots"),
    "C17": ("exploration",
            "Every fact reported by the Type API is compared with syn facts of the emitted code; has_impl claims are "
            "compiled as trait-bound assertions; uses_* flags are compared with the crate paths in the output.",
            "syn facts; rustc as the judge of trait bounds", "API-vs-output monitor + compiled bound assertions"),
    "C18": ("exploration",
            "For every generated struct, builder probes over subsets of set properties are executed and compared with the "
            "schema's required/default sets and with the type's own deserialiser (the builder is blamed when it disagrees with "
            "both, serde when it rejects what schema and builder accept); bad setter values must name the property; "
            "struct->builder->struct identity.", "compiled output; driver emitted from properties_info()",
            "two-sided behavioural monitor (schema and serde as references)"),
    "C19": ("exploration",
            "Trait-bound assertions for the promised trait surface are compiled for every generated type; syn visibility scan.",
            "rustc as the judge of trait bounds", "compiled bound assertions + syn visibility scan"),
}

BUILT = sys.argv[1:] if len(sys.argv) > 1 else None


def main():
    props = [json.loads(l) for l in open(os.path.join(VERIF, "properties.jsonl"))]
    built = []
    for p in props:
        pid = p["id"]
        if os.path.exists(os.path.join(VERIF, "py", "props", pid.lower() + ".py")):
            built.append(pid)
    checks = []
    for pid in built:
        cat, text, note, tech = CHECKS[pid]
        checks.append({
            "property_id": pid,
            "quick_cmd": "./check %s --tier quick" % pid,
            "thorough_cmd": "./check %s --tier thorough" % pid,
            "evidence_file": "/verif/evidence/%s.json" % pid,
            "replay_cmd_template": "./check %s --replay {path}" % pid,
            "engine": "vgen+stage2",
            "level_claimed": {"category": cat, "text": text, "design_ref": "DESIGN.md section 6, %s" % pid},
            "level_note": note,
            "technique": "runtime monitoring: " + tech,
        })
    m = {
        "version": 1,
        "setup_cmd": "./setup.sh",
        "hooks": {
            "guard": "typify_verif (rustc --cfg)",
            "enable": "RUSTFLAGS=\"--cfg typify_verif\" on every cargo invocation of the harness (vgen, stage-2, "
                      "cargo-typify, macro crates)",
            "baseline_off_cmd": "cd /repo && cargo test --workspace --no-fail-fast --offline",
            "source_commits": ["1a29ffe", "c959929"],
            "add_only": True,
        },
        "engines": [{"name": "vgen+stage2", "path": "/verif/vgen, /verif/rt, /verif/py",
                     "serves_properties": built,
                     "kind_free_text": "case runner over the real TypeSpace (public API + hook events), compiled-output "
                                       "probe runtime with rustc diagnostics as compile-time monitor, offline python checkers"}],
        "checks": checks,
        "not_applicable": [{"property_id": p["id"],
                            "reason": "check not built yet (work in progress; runtime monitoring applies to it)"}
                           for p in props if p["id"] not in built],
        "notes": "see DESIGN.md; known findings in known_findings.json; exit 2 = inconclusive (never a VIOLATION line)",
    }
    with open(os.path.join(VERIF, "MANIFEST.json"), "w") as f:
        json.dump(m, f, indent=1)
    print("manifest:", built)


if __name__ == "__main__":
    main()

#!/bin/bash
# confirm_mutant.sh <worktree>  : independently confirm a seeded change left applied in a scratch worktree
#   (1) existing suite passes with the change (demo files moved aside)
#   (2) demo tests FAIL with the change   (3) demo tests PASS without it
wt=$1
cd "$wt" || exit 2
demos=$(git status --porcelain | grep '^??' | grep -v ' out/' | awk '{print $2}')
tests=""
for d in $demos; do case "$d" in *.rs) pkg=$(echo $d | cut -d/ -f1); t=$(basename $d .rs); tests="$tests $pkg:$t";; esac; done
mkdir -p out/held; for d in $demos; do mkdir -p out/held/$(dirname $d); mv $d out/held/$d; done
suite=$(cargo test --workspace --offline 2>&1 | grep -E "^test result" | awk '{f+=$6} END {print "failed=" f+0}')
suite_rc=${PIPESTATUS[0]}
for d in $demos; do mv out/held/$d $d; done
with=""; for t in $tests; do p=${t%%:*}; n=${t##*:}; cargo test -p $p --offline --test $n >/dev/null 2>&1; with="$with $n=$?"; done
git apply -R out/patch.diff
without=""; for t in $tests; do p=${t%%:*}; n=${t##*:}; cargo test -p $p --offline --test $n >/dev/null 2>&1; without="$without $n=$?"; done
git apply out/patch.diff
echo "$(basename $wt): suite_with_change[$suite] demo_with_change(rc, nonzero=fails)[$with] demo_without_change(rc 0=passes)[$without]"

#!/bin/bash
# sweep.sh <tier> <seed...> : run every check, print exit codes
cd "$(dirname "$0")/../.."
tier=$1; shift
for seed in "$@"; do
  for p in C01 C02 C03 C04 C05 C06 C07 C08 C09 C10 C11 C12 C13 C14 C15 C16 C17 C18 C19; do
    start=$(date +%s)
    out=$(VERIF_SEED=$seed ./check $p --tier $tier 2>&1)
    rc=$?
    end=$(date +%s)
    nv=$(echo "$out" | grep -c "^VIOLATION")
    nk=$(echo "$out" | grep -c "^KNOWN-FINDING")
    echo "seed=$seed $p rc=$rc violations=$nv known=$nk t=$((end-start))s $(echo "$out" | grep '^INCONCLUSIVE' | head -1)"
    if [ $rc -ne 0 ]; then echo "$out" | grep -A1 "^VIOLATION" | head -8; fi
  done
done

#!/bin/bash
# reseed_all.sh <seeds...> : every seeded change against the check of its own property at the given seeds
# (detection must not hinge on seed 0); env ONLY=<glob of seeded ids>, OWN=<check to use instead of the change's own, e.g. C17>. Output: one line per (change, seed).
cd /verif
for d in seeded/${ONLY:-C*}/; do
  id=$(basename $d); p=${OWN:-${id:0:3}}
  patch=$d/patch.diff; [ -f $d/patch.rebased.diff ] && patch=$d/patch.rebased.diff
  if ! git -C /repo apply --check $(realpath $patch) 2>/dev/null; then echo "$id - does_not_apply"; continue; fi
  SEEDS="$*" py/tools/eval_mutant.sh $(realpath $patch) $p 2>&1 | grep "^== seed" | while read -r line; do echo "$id $line"; done
done

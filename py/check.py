#!/usr/bin/env python3
"""Entry point: check.py <Cnn> [--tier quick|thorough] [--replay path]"""
import argparse
import importlib
import os
import sys
import traceback

sys.path.insert(0, os.path.dirname(os.path.abspath(__file__)))


def main():
    ap = argparse.ArgumentParser()
    ap.add_argument("prop")
    ap.add_argument("--tier", default=os.environ.get("VERIF_TIER", "quick"))
    ap.add_argument("--seed", type=int, default=int(os.environ.get("VERIF_SEED", "0")))
    ap.add_argument("--replay", default=None)
    ap.add_argument("--no-build", action="store_true")
    a = ap.parse_args()
    from vlib import util, vgen
    prop = a.prop.upper()
    # one run per property at a time: runs of the same check share /verif/work/<prop>
    import fcntl
    os.makedirs(util.WORK, exist_ok=True)
    lock = open(os.path.join(util.WORK, ".%s.lock" % prop), "w")
    fcntl.flock(lock, fcntl.LOCK_EX)
    try:
        if not a.no_build:
            vgen.build()
        mod = importlib.import_module("props." + prop.lower())
        rc = mod.run(a.tier, a.seed, replay=a.replay)
    except Exception as e:  # harness failure: never a violation
        traceback.print_exc()
        print("INCONCLUSIVE property=%s harness error: %s" % (prop, str(e)[:300]))
        rc = 2
    sys.exit(rc)


if __name__ == "__main__":
    main()
